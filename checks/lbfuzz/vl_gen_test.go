package netpoll

import (
	"github.com/bytedance/gopkg/lang/mcache"
)

// begin/end bracket a step-wise execution (the generator chooses each op from the
// state the previous ops left behind).
func (x *vlExec) begin() (restore func()) {
	oldCap := LinkBufferCap
	if x.prog.Cfg.LinkBufferCap > 0 {
		LinkBufferCap = x.prog.Cfg.LinkBufferCap
	}
	mcache.SetObserver(x.led)
	return func() {
		mcache.SetObserver(nil)
		LinkBufferCap = oldCap
	}
}

var vlCaps = []int{8, 16, 64, 4096, 8, 16, 64, 4096, 8192}

type vlGen struct {
	r       *vfRng
	x       *vlExec
	bigLeft int // budget of very large (MB) operations
	bytes   int // total payload generated so far
}

const vlMaxBytes = 2 << 20 // payload budget per program (the rare 8MB operations come on top)

func (g *vlGen) sizeAround(vals ...int) int {
	v := vals[g.r.intn(len(vals))]
	v += g.r.intn(3) - 1
	if v < 0 {
		v = 0
	}
	return v
}

// writeSize draws a size for a write of up to lim bytes (lim<=0: unlimited class mix).
func (g *vlGen) writeSize(lb *LinkBuffer) int {
	r := g.r
	room := 0
	if lb.write != nil {
		room = cap(lb.write.buf) - lb.write.malloc
	}
	c := LinkBufferCap
	switch r.intn(20) {
	case 0:
		return 0
	case 1:
		return 1
	case 2, 3, 4:
		return g.sizeAround(room)
	case 5, 6:
		return g.sizeAround(c)
	case 7:
		return g.sizeAround(1024, 4096, 8192)
	case 8:
		return r.rng(4097, 12000)
	case 9:
		if g.bigLeft > 0 {
			g.bigLeft--
			return g.sizeAround(8<<20, 1<<20)
		}
		return r.rng(1, 64)
	case 10, 11:
		return r.rng(1, 2*c+2)
	default:
		return r.rng(1, 48)
	}
}

func (g *vlGen) readSize(o *vlObj) int {
	r := g.r
	have := len(o.readable)
	nodeLeft := 0
	if o.lb.read != nil {
		nodeLeft = o.lb.read.Len()
	}
	switch r.intn(16) {
	case 0:
		return 0
	case 1:
		return 1
	case 2, 3, 4:
		return g.sizeAround(nodeLeft)
	case 5, 6:
		return g.sizeAround(have)
	case 7:
		return have + r.rng(1, 5000) // must fail
	case 8:
		if have > 0 {
			return r.rng(1, have)
		}
		return 1
	case 9:
		return g.sizeAround(1024, 4096, 8192)
	case 10:
		// just over the first node, into the next ones
		return nodeLeft + r.rng(1, 2*LinkBufferCap+1)
	default:
		if have > 0 {
			lim := have
			if lim > 64 {
				lim = 64
			}
			return r.rng(1, lim)
		}
		return r.rng(0, 3)
	}
}

func (g *vlGen) pickObj(pred func(o *vlObj) bool) *vlObj {
	var c []*vlObj
	for _, o := range g.x.objs {
		if !o.dead && pred(o) {
			c = append(c, o)
		}
	}
	if len(c) == 0 {
		return nil
	}
	return c[g.r.intn(len(c))]
}

func (g *vlGen) liveCount(kind int) int {
	n := 0
	for _, o := range g.x.objs {
		if !o.dead && o.kind == kind {
			n++
		}
	}
	return n
}

// next chooses the next op for the current state.
func (g *vlGen) next() vlOp {
	r := g.r
	nbuf, nbook, nslice := g.liveCount(vlKindBuf), g.liveCount(vlKindBook), g.liveCount(vlKindSlice)
	if nbuf+nbook == 0 || (nbuf+nbook+nslice < 6 && r.chance(3)) {
		if r.chance(25) && nbook < 2 {
			sz := []int{16, 64, 512, 4096, 8192}[r.intn(5)]
			return vlOp{K: "newbook", N: sz}
		}
		c := LinkBufferCap
		n := []int{0, 0, 1, c - 1, c, c + 1, 1024, 4096, 8192, 8193}[r.intn(10)]
		if n < 0 {
			n = 0
		}
		return vlOp{K: "new", N: n}
	}
	o := g.pickObj(func(o *vlObj) bool { return true })
	if o.appended {
		if r.chance(25) {
			if d := g.pickObj(func(d *vlObj) bool { return d.kind == vlKindBuf && d != o && !d.appended }); d != nil && o.lb.MallocLen() == 0 {
				return vlOp{K: "append", B: o.id, M: d.id}
			}
		}
		return vlOp{K: "flush", B: o.id}
	}
	seed := r.next()
	switch o.kind {
	case vlKindSlice:
		return g.readerOp(o, seed)
	case vlKindBook:
		switch r.intn(10) {
		case 0, 1, 2, 3:
			n := o.bookSize
			switch r.intn(4) {
			case 0:
				n = r.rng(1, o.bookSize)
			case 1:
				n = r.rng(0, 8)
			}
			g.bytes += n
			return vlOp{K: "book", B: o.id, N: n, S: seed}
		case 4:
			return vlOp{K: "crelease", B: o.id}
		case 5:
			if r.chance(4) {
				return vlOp{K: "close", B: o.id}
			}
			return vlOp{K: "crelease", B: o.id}
		default:
			return g.readerOp(o, seed)
		}
	}
	// ordinary buffer
	if r.chance(1) {
		return vlOp{K: "close", B: o.id}
	}
	wantRead := len(o.readable) > 0 && r.chance(50)
	if wantRead {
		return g.readerOp(o, seed)
	}
	if g.bytes > vlMaxBytes {
		if len(o.pending) > 0 {
			return vlOp{K: "flush", B: o.id}
		}
		return g.readerOp(o, seed)
	}
	switch r.intn(20) {
	case 0, 1, 2, 3:
		n := g.writeSize(o.lb)
		g.bytes += n
		return vlOp{K: "malloc", B: o.id, N: n, S: seed}
	case 4, 5:
		if !o.epochWD {
			n := g.writeSize(o.lb)
			g.bytes += n
			return vlOp{K: "wbin", B: o.id, N: n, S: seed}
		}
		return vlOp{K: "wbyte", B: o.id, S: seed}
	case 6:
		if !o.epochWD {
			n := g.writeSize(o.lb)
			g.bytes += n
			return vlOp{K: "wstr", B: o.id, N: n, S: seed}
		}
		return vlOp{K: "wbyte", B: o.id, S: seed}
	case 7:
		return vlOp{K: "wbyte", B: o.id, S: seed}
	case 8, 9, 10:
		if !o.epochWB {
			remain := 0
			switch r.intn(3) {
			case 0:
				remain = o.lastMalloc
			case 1:
				remain = r.rng(0, o.lastMalloc)
			}
			n := r.rng(1, 40)
			if r.chance(25) {
				n = r.rng(4000, 9000)
			}
			g.bytes += n
			return vlOp{K: "wdirect", B: o.id, N: n, M: remain, S: seed}
		}
		n := g.writeSize(o.lb)
		g.bytes += n
		return vlOp{K: "malloc", B: o.id, N: n, S: seed}
	case 11, 12:
		L := len(o.pending)
		n := L
		switch r.intn(5) {
		case 0:
			n = 0
		case 1:
			n = L - o.lastMalloc
		case 2:
			n = r.rng(0, L)
		case 3:
			n = L - 1
		}
		if n < 0 {
			n = 0
		}
		return vlOp{K: "mack", B: o.id, N: n}
	case 13:
		if len(o.pending) == 0 {
			if d := g.pickObj(func(d *vlObj) bool { return d.kind == vlKindBuf && d != o && !d.appended }); d != nil {
				return vlOp{K: "append", B: o.id, M: d.id}
			}
		}
		return vlOp{K: "flush", B: o.id}
	case 14, 15, 16, 17:
		return vlOp{K: "flush", B: o.id}
	default:
		return g.readerOp(o, seed)
	}
}

func (g *vlGen) readerOp(o *vlObj, seed uint64) vlOp {
	r := g.r
	isSlice := o.kind == vlKindSlice
	for {
		switch r.intn(22) {
		case 0, 1, 2, 3:
			return vlOp{K: "next", B: o.id, N: g.readSize(o)}
		case 4, 5, 6:
			return vlOp{K: "peek", B: o.id, N: g.readSize(o)}
		case 7, 8:
			return vlOp{K: "skip", B: o.id, N: g.readSize(o)}
		case 9:
			d := int(seed & 0xff)
			if len(o.readable) > 0 && r.chance(80) {
				lim := len(o.readable)
				if r.chance(60) && lim > 3*LinkBufferCap {
					lim = 3 * LinkBufferCap
				}
				d = int(o.readable[r.intn(lim)])
			}
			return vlOp{K: "until", B: o.id, M: d, N: r.intn(len(o.readable) + 1), S: seed}
		case 10:
			return vlOp{K: "rstr", B: o.id, N: g.readSize(o)}
		case 11:
			return vlOp{K: "rbin", B: o.id, N: g.readSize(o)}
		case 12:
			return vlOp{K: "rbyte", B: o.id}
		case 13, 14:
			if len(g.x.objs) < 40 {
				return vlOp{K: "slice", B: o.id, N: g.readSize(o)}
			}
		case 15, 16:
			if o.kind == vlKindBook {
				return vlOp{K: "crelease", B: o.id}
			}
			return vlOp{K: "release", B: o.id}
		case 17, 18:
			if !isSlice {
				return vlOp{K: "rcopy", B: o.id, N: g.readSize(o)}
			}
		case 19:
			if !isSlice {
				return vlOp{K: "bytes", B: o.id}
			}
		case 20:
			if !isSlice {
				// always with a destination vector, the way flush()/outputs() call it;
				// GetBytes(nil) is not used by netpoll and not part of C01/C02
				m := []int{1, 2, 3, 32, 32}[r.intn(5)]
				return vlOp{K: "getbytes", B: o.id, M: m}
			}
		case 21:
			return vlOp{K: "len", B: o.id}
		}
	}
}

// vlGenerateAndRun builds a program of about nops operations while executing it.
func vlGenerateAndRun(seed uint64) (*vlProgram, *vlExec, *vlViolation) {
	r := vfNewRng(seed)
	prog := &vlProgram{Cfg: vlCfg{LinkBufferCap: vlCaps[r.intn(len(vlCaps))]}}
	x := vlNewExec(prog)
	restore := x.begin()
	defer restore()
	g := &vlGen{r: r, x: x}
	if r.intn(250) == 0 {
		g.bigLeft = 2 // a few programs cross the 8MB pool limit (mallocMax)
	}
	nops := r.rng(5, 60)
	if r.chance(30) {
		nops = r.rng(60, 300)
	}
	for i := 0; i < nops; i++ {
		op := g.next()
		prog.Ops = append(prog.Ops, op)
		x.opIdx, x.curOp = i, op
		if v := x.step(op); v != nil {
			return prog, x, v
		}
	}
	x.opIdx, x.curOp = len(prog.Ops), vlOp{K: "teardown"}
	v := x.teardown()
	return prog, x, v
}

// vlReplay executes a recorded program.
func vlReplay(prog *vlProgram) (*vlExec, *vlViolation) {
	x := vlNewExec(prog)
	v := x.run()
	return x, v
}

// vlShrink is a plain delta-debugging pass over the op list: a candidate is kept when it
// still produces a violation of the same property and oracle.
func vlShrink(prog *vlProgram, v *vlViolation, budget int) (*vlProgram, *vlViolation) {
	cur := &vlProgram{Cfg: prog.Cfg, Ops: append([]vlOp(nil), prog.Ops...)}
	// drop everything after the failing op
	if v.OpIdx+1 < len(cur.Ops) {
		cand := &vlProgram{Cfg: cur.Cfg, Ops: append([]vlOp(nil), cur.Ops[:v.OpIdx+1]...)}
		if _, v2 := vlReplay(cand); v2 != nil && v2.Prop == v.Prop && v2.Kind == v.Kind {
			cur, v = cand, v2
		}
	}
	chunk := len(cur.Ops) / 2
	if chunk < 1 {
		chunk = 1
	}
	for budget > 0 {
		removed := false
		for start := 0; start < len(cur.Ops) && budget > 0; {
			end := start + chunk
			if end > len(cur.Ops) {
				end = len(cur.Ops)
			}
			cand := &vlProgram{Cfg: cur.Cfg}
			cand.Ops = append(cand.Ops, cur.Ops[:start]...)
			cand.Ops = append(cand.Ops, cur.Ops[end:]...)
			budget--
			if _, v2 := vlReplay(cand); v2 != nil && v2.Prop == v.Prop && v2.Kind == v.Kind {
				cur, v = cand, v2
				removed = true
			} else {
				start = end
			}
		}
		if chunk > 1 {
			chunk /= 2
		} else if !removed {
			break
		}
	}
	// removing ops leaves holes in the object numbering only when a "new"/"slice" was
	// removed; apply() skips ops whose target does not exist, so replay stays well defined.
	return cur, v
}
