// lbfuzz: reference-model + pool-ledger monitor for LinkBuffer (C01, C02, C03).
//
// A *program* is a list of vlOp executed against real LinkBuffers. Beside every buffer
// runs a FIFO byte-queue model; every zero-copy result is kept in a live registry and
// re-compared after every later operation; the stand-in pool (see /verif/shim) reports
// every Malloc/Free to the ledger below.
package netpoll

import (
	"bytes"
	"fmt"
	"reflect"
	"sort"
	"unsafe"

	"github.com/bytedance/gopkg/lang/mcache"
)

// ---------------------------------------------------------------- ops

type vlOp struct {
	K string `json:"k"`           // kind
	B int    `json:"b"`           // target object index
	N int    `json:"n,omitempty"` // size
	M int    `json:"m,omitempty"` // second parameter (remain / delim / donor / cap / vector len)
	S uint64 `json:"s,omitempty"` // payload seed
}

func (o vlOp) String() string {
	return fmt.Sprintf("%s(b=%d,n=%d,m=%d)", o.K, o.B, o.N, o.M)
}

type vlCfg struct {
	LinkBufferCap int `json:"link_buffer_cap"`
}

type vlProgram struct {
	Cfg vlCfg  `json:"cfg"`
	Ops []vlOp `json:"ops"`
}

// ---------------------------------------------------------------- violation

type vlViolation struct {
	Prop   string `json:"property"`
	Kind   string `json:"oracle"`
	Msg    string `json:"msg"`
	OpIdx  int    `json:"op_index"`
	Op     string `json:"op"`
	Split  bool   `json:"block_was_writedirect_split,omitempty"` // root-cause attribute for known-finding matching
	Detail string `json:"detail,omitempty"`
}

func (v *vlViolation) Error() string {
	return fmt.Sprintf("%s/%s at op %d %s: %s", v.Prop, v.Kind, v.OpIdx, v.Op, v.Msg)
}

// ---------------------------------------------------------------- pool ledger

type vlBlock struct {
	base  uintptr
	size  int
	mem   []byte // keeps the block alive so its address is never reissued within a program
	freed bool
	split bool // a WriteDirect split made two nodes share this block
	seq   int
}

type vlLedger struct {
	blocks   []*vlBlock // sorted by issue order; programs issue at most a few hundred
	byBase   map[uintptr]*vlBlock
	x        *vlExec
	mallocs  int
	frees    int
	freesLiv int // frees observed while >=1 zero-copy result was live
}

func vlBase(p []byte) uintptr {
	return (*reflect.SliceHeader)(unsafe.Pointer(&p)).Data
}

func (l *vlLedger) find(addr uintptr) *vlBlock {
	for _, b := range l.blocks {
		if addr >= b.base && addr < b.base+uintptr(b.size) {
			return b
		}
	}
	return nil
}

// OnMalloc implements mcache.Observer.
func (l *vlLedger) OnMalloc(block []byte) {
	b := &vlBlock{base: vlBase(block), size: len(block), mem: block, seq: l.mallocs}
	if vlTrace {
		fmt.Printf("TRACE op %d %s: pool Malloc -> block #%d size %d\n", l.x.opIdx, l.x.curOp, b.seq, b.size)
	}
	l.mallocs++
	l.blocks = append(l.blocks, b)
	l.byBase[b.base] = b
}

// OnFree implements mcache.Observer. It runs inside netpoll's call to free(), i.e. in the
// middle of an operation; it only records and raises (via the executor's pending
// violation), it never inspects the buffer under operation.
func (l *vlLedger) OnFree(buf []byte) bool {
	l.frees++
	x := l.x
	base := vlBase(buf)
	if vlTrace {
		seq := -1
		if in := l.find(base); in != nil {
			seq = in.seq
		}
		fmt.Printf("TRACE op %d %s: pool Free block #%d cap %d\n%s\n", x.opIdx, x.curOp, seq, cap(buf), vfStack())
	}
	if cap(buf) == 0 {
		// nothing to give back; stock mcache ignores it as well (0 is not a power of two)
		return false
	}
	blk := l.byBase[base]
	if blk == nil {
		in := l.find(base)
		if in != nil {
			x.raise("C03", "interior_free", fmt.Sprintf("Free of an interior pointer (block #%d +%d, cap %d)", in.seq, base-in.base, cap(buf)), in.split)
			return false
		}
		who := x.describeForeign(base, cap(buf))
		x.raise("C03", "foreign_free", fmt.Sprintf("Free of memory the pool never issued: cap=%d %s", cap(buf), who), false)
		return false
	}
	if blk.freed {
		x.raise("C03", "double_free", fmt.Sprintf("block #%d (size %d) freed twice", blk.seq, blk.size), blk.split)
		return false
	}
	if cap(buf) != blk.size {
		x.raise("C03", "wrong_cap_free", fmt.Sprintf("block #%d size %d freed with cap %d", blk.seq, blk.size, cap(buf)), blk.split)
		return false
	}
	// C02: freed while a zero-copy result of an unreleased reader still points into it
	nlive := 0
	for _, o := range x.objs {
		for _, r := range o.live {
			nlive++
			if len(r.p) == 0 {
				continue
			}
			a := vlBase(r.p)
			if a >= blk.base && a < blk.base+uintptr(blk.size) {
				x.raise("C02", "freed_while_live", fmt.Sprintf("block #%d returned to the pool while %s (op %d, %d bytes) of unreleased reader %d points into it", blk.seq, r.what, r.opIdx, len(r.p), o.id), blk.split)
			}
		}
	}
	if nlive > 0 {
		l.freesLiv++
	}
	blk.freed = true
	return true
}

var vlTrace = vfEnvInt("VERIF_TRACE", 0) > 0

// ---------------------------------------------------------------- objects and results

const (
	vlKindBuf   = 0 // ordinary LinkBuffer (Writer+Reader)
	vlKindSlice = 1 // reader cut by Slice
	vlKindBook  = 2 // LinkBuffer driven like a connection's input buffer (book/bookAck/Release)
)

type vlRes struct {
	p     []byte
	snap  []byte
	what  string
	opIdx int
}

type vlObj struct {
	id       int
	kind     int
	lb       *LinkBuffer
	readable []byte
	pending  []byte
	dead     bool
	appended bool // between Append and the Flush that must follow
	// WriteDirect contract bookkeeping (per flush epoch)
	epochWB    bool // WriteBinary/WriteString used in this epoch
	epochWD    bool // WriteDirect used in this epoch
	lastMalloc int  // size of the tail of the most recent Malloc that was not split yet
	live       []*vlRes
	parent     int
	wr         Writer // when set, writer ops go through this adapter (zcWriter) instead of lb
	flushFn    func() // when set, "flush" is performed by the adapter's owner
	bookSize   int
	maxSize    int
	reads      int
}

type vlStats struct {
	ops           int
	crossReads    int // reads that crossed a node boundary
	crossWrites   int // writes that started a new node
	flushes       int
	dataReads     int
	liveTracked   int
	maxLive       int
	liveDuringMut int // mutating ops executed while >=1 live result existed
	watched       int
	skipped       int
	shapes        map[uint64]struct{}
	bigrams       map[uint32]struct{}
	prevKind      int
}

type vlExec struct {
	prog    *vlProgram
	objs    []*vlObj
	led     *vlLedger
	watch   []*vlRes // caller-owned memory: must never change, never be freed
	viol    *vlViolation
	opIdx   int
	curOp   vlOp
	st      vlStats
	nocheck bool
}

func (x *vlExec) raise(prop, kind, msg string, split bool) {
	if x.viol != nil {
		return // first failing observation only
	}
	x.viol = &vlViolation{Prop: prop, Kind: kind, Msg: msg, OpIdx: x.opIdx, Op: x.curOp.String(), Split: split}
}

func (x *vlExec) describeForeign(base uintptr, c int) string {
	for _, w := range x.watch {
		if len(w.p) == 0 {
			continue
		}
		a := vlBase(w.p)
		if base >= a && base < a+uintptr(cap(w.p)) {
			return fmt.Sprintf("(it is caller-owned memory: %s of op %d)", w.what, w.opIdx)
		}
	}
	return "(unknown origin)"
}

func vlNewExec(p *vlProgram) *vlExec {
	x := &vlExec{prog: p}
	x.led = &vlLedger{byBase: map[uintptr]*vlBlock{}, x: x}
	x.st.shapes = map[uint64]struct{}{}
	x.st.bigrams = map[uint32]struct{}{}
	return x
}

func (x *vlExec) newObj(kind int, lb *LinkBuffer) *vlObj {
	o := &vlObj{id: len(x.objs), kind: kind, lb: lb, parent: -1}
	x.objs = append(x.objs, o)
	return o
}

func (x *vlExec) obj(i int) *vlObj {
	if i < 0 || i >= len(x.objs) {
		return nil
	}
	return x.objs[i]
}

func (x *vlExec) addLive(o *vlObj, p []byte, what string) {
	if len(p) == 0 {
		return
	}
	r := &vlRes{p: p, snap: append([]byte(nil), p...), what: what, opIdx: x.opIdx}
	o.live = append(o.live, r)
	x.st.liveTracked++
}

func (x *vlExec) addWatch(p []byte, what string) {
	if len(p) == 0 {
		return
	}
	x.watch = append(x.watch, &vlRes{p: p, snap: append([]byte(nil), p...), what: what, opIdx: x.opIdx})
	x.st.watched++
}

func (x *vlExec) payload(n int, seed uint64) []byte {
	p := make([]byte, n)
	vfFill(p, seed, 0)
	return p
}

// payloadCap returns caller memory whose capacity is a power of two for half of the
// seeds, so that a foreign free would really enter the stock pool.
func (x *vlExec) payloadCap(n int, seed uint64) []byte {
	c := n
	if seed&1 == 0 {
		c = 1
		for c < n {
			c <<= 1
		}
	}
	p := make([]byte, n, c)
	vfFill(p, seed, 0)
	return p
}

// ---------------------------------------------------------------- op kinds

var vlKinds = []string{
	"new", "newbook",
	"malloc", "wbin", "wstr", "wbyte", "wdirect", "mack", "append", "flush",
	"next", "peek", "skip", "until", "rstr", "rbin", "rbyte", "slice", "release", "rcopy", "bytes", "getbytes", "len",
	"book", "crelease", "close",
}

func vlKindIdx(k string) int {
	for i, s := range vlKinds {
		if s == k {
			return i
		}
	}
	return -1
}

func vlMutating(k string) bool {
	switch k {
	case "len", "bytes":
		return false
	}
	return true
}

// vlSizeClass buckets a size for the distinct-signature count.
func vlSizeClass(n int) int {
	switch {
	case n <= 0:
		return 0
	case n == 1:
		return 1
	case n <= 16:
		return 2
	case n <= 1024:
		return 3
	case n <= 4096:
		return 4
	case n <= 8192:
		return 5
	case n <= 1<<20:
		return 6
	}
	return 7
}

// ---------------------------------------------------------------- execution

// run executes the whole program; it returns the first violation (nil if none).
// Panics raised inside netpoll are converted into C01 violations (the generator only
// emits contract-respecting sequences); panics in harness code are re-raised.
func (x *vlExec) run() (v *vlViolation) {
	oldCap := LinkBufferCap
	if x.prog.Cfg.LinkBufferCap > 0 {
		LinkBufferCap = x.prog.Cfg.LinkBufferCap
	}
	mcache.SetObserver(x.led)
	defer func() {
		mcache.SetObserver(nil)
		LinkBufferCap = oldCap
	}()
	for i, op := range x.prog.Ops {
		x.opIdx, x.curOp = i, op
		if v := x.step(op); v != nil {
			return v
		}
	}
	x.opIdx, x.curOp = len(x.prog.Ops), vlOp{K: "teardown"}
	return x.teardown()
}

func (x *vlExec) step(op vlOp) (v *vlViolation) {
	defer func() {
		if r := recover(); r != nil {
			if hv, ok := r.(*vlHarnessPanic); ok {
				panic(hv.msg)
			}
			stack := vfStack()
			if x.viol != nil {
				v = x.viol
				return
			}
			v = &vlViolation{Prop: "C01", Kind: "panic", Msg: fmt.Sprintf("panic in netpoll on a contract-respecting sequence: %v", r), OpIdx: x.opIdx, Op: op.String(), Detail: stack}
		}
	}()
	ran := x.apply(op)
	if !ran {
		x.st.skipped++
		return nil
	}
	x.st.ops++
	ki := vlKindIdx(op.K)
	x.st.bigrams[uint32(x.st.prevKind)<<16|uint32(ki)<<8|uint32(vlSizeClass(op.N))] = struct{}{}
	x.st.prevKind = ki
	if x.viol != nil {
		return x.viol
	}
	x.afterOp(op)
	return x.viol
}

type vlHarnessPanic struct{ msg string }

func vlHarness(msg string) { panic(&vlHarnessPanic{msg}) }

// fail records a C01 oracle failure of the current op.
func (x *vlExec) fail(kind, f string, a ...interface{}) {
	x.raise("C01", kind, fmt.Sprintf(f, a...), false)
}

func (x *vlExec) expectBytes(what string, got, want []byte) bool {
	if !bytes.Equal(got, want) {
		i := 0
		for i < len(got) && i < len(want) && got[i] == want[i] {
			i++
		}
		var g, w byte
		if i < len(got) {
			g = got[i]
		}
		if i < len(want) {
			w = want[i]
		}
		prop, kind := "C01", "wrong_bytes"
		// Reading pool memory that was already returned (0xDD) or never written (0xA5)
		if g == mcache.PoisonFreed {
			prop, kind = "C03", "read_of_freed_block"
		}
		x.raise(prop, kind, fmt.Sprintf("%s: len got=%d want=%d, first mismatch at %d (got 0x%02x want 0x%02x)", what, len(got), len(want), i, g, w), false)
		return false
	}
	return true
}

// apply runs one op against the real buffer and its model. It returns false when the op
// is not applicable in the current state (replay of a shrunk program).
func (x *vlExec) apply(op vlOp) bool {
	switch op.K {
	case "new":
		lb := NewLinkBuffer(op.N)
		x.newObj(vlKindBuf, lb)
		return true
	case "newbook":
		if op.N <= 0 {
			return false
		}
		lb := NewLinkBuffer(op.N)
		o := x.newObj(vlKindBook, lb)
		o.bookSize, o.maxSize = op.N, op.N
		return true
	}
	o := x.obj(op.B)
	if o == nil || o.dead {
		return false
	}
	lb := o.lb
	isBuf := o.kind == vlKindBuf
	wr := Writer(lb)
	if o.wr != nil {
		wr = o.wr
	}
	if o.appended && op.K != "flush" && op.K != "append" {
		return false
	}
	if len(o.live) > 0 && vlMutating(op.K) {
		x.st.liveDuringMut++
	}
	switch op.K {
	// ------------------------------------------------ writers
	case "malloc":
		if !isBuf {
			return false
		}
		w0 := lb.write
		p, err := wr.Malloc(op.N)
		if err != nil {
			x.fail("malloc_err", "Malloc(%d) err=%v", op.N, err)
			return true
		}
		if op.N <= 0 {
			if p != nil {
				x.fail("malloc_ret", "Malloc(%d) returned %d bytes", op.N, len(p))
			}
			return true
		}
		if len(p) != op.N {
			x.fail("malloc_ret", "Malloc(%d) returned %d bytes", op.N, len(p))
			return true
		}
		if lb.write != w0 {
			x.st.crossWrites++
		}
		vfFill(p, op.S, 0)
		o.pending = append(o.pending, p...)
		o.lastMalloc = op.N
		return true
	case "wbin", "wstr":
		if !isBuf || o.epochWD {
			return false
		}
		p := x.payloadCap(op.N, op.S)
		var n int
		var err error
		w0 := lb.write
		if op.K == "wbin" {
			n, err = wr.WriteBinary(p)
		} else {
			n, err = wr.WriteString(unsafeSliceToString(p))
		}
		if err != nil || n != len(p) {
			x.fail("write_ret", "%s(%d) = %d, %v", op.K, len(p), n, err)
			return true
		}
		if lb.write != w0 {
			x.st.crossWrites++
		}
		x.addWatch(p, op.K+" argument")
		o.pending = append(o.pending, p...)
		if op.N > 0 {
			o.epochWB = true
			o.lastMalloc = 0
		}
		return true
	case "wbyte":
		if !isBuf {
			return false
		}
		b := byte(op.S)
		if err := wr.WriteByte(b); err != nil {
			x.fail("write_ret", "WriteByte err=%v", err)
			return true
		}
		o.pending = append(o.pending, b)
		o.lastMalloc = 1
		return true
	case "wdirect":
		if !isBuf || o.epochWB {
			return false
		}
		remain := op.M
		if remain < 0 || remain > o.lastMalloc || op.N <= 0 {
			return false
		}
		p := x.payloadCap(op.N, op.S)
		if err := wr.WriteDirect(p, remain); err != nil {
			x.fail("write_ret", "WriteDirect err=%v", err)
			return true
		}
		x.addWatch(p, "wdirect argument")
		L := len(o.pending)
		np := make([]byte, 0, L+len(p))
		np = append(np, o.pending[:L-remain]...)
		np = append(np, p...)
		np = append(np, o.pending[L-remain:]...)
		o.pending = np
		o.epochWD = true
		o.lastMalloc = 0
		if remain > 0 {
			x.markSplits(o)
		}
		return true
	case "mack":
		if !isBuf {
			return false
		}
		if op.N < 0 || op.N > len(o.pending) {
			return false
		}
		if err := wr.MallocAck(op.N); err != nil {
			x.fail("mack_err", "MallocAck(%d) err=%v", op.N, err)
			return true
		}
		cut := len(o.pending) - op.N
		o.pending = o.pending[:op.N]
		o.lastMalloc -= cut
		if o.lastMalloc < 0 {
			o.lastMalloc = 0
		}
		return true
	case "append":
		if !isBuf {
			return false
		}
		d := x.obj(op.M)
		if d == nil || d == o || d.dead || d.kind != vlKindBuf || d.appended {
			return false
		}
		if len(o.pending) != 0 && !o.appended {
			return false // contract (iii): nothing pending in the receiver
		}
		if o.appended && lb.MallocLen() != 0 {
			return false
		}
		dlive := d.live
		if len(d.readable)+len(d.pending) > 0 {
			d.live = nil // results of an appended buffer end with it (doc: cannot be used any more)
		}
		if err := wr.Append(d.lb); err != nil {
			x.fail("append_err", "Append err=%v", err)
			return true
		}
		if len(d.readable)+len(d.pending) > 0 {
			o.pending = append(o.pending, d.readable...)
			o.pending = append(o.pending, d.pending...)
			o.appended = true
			d.dead = true
		} else {
			d.live = dlive
		}
		return true
	case "flush":
		if !isBuf {
			return false
		}
		if o.flushFn != nil {
			o.flushFn() // the adapter case checks the sink side and maintains o.readable itself
			o.pending = o.pending[:0:0]
			o.appended = false
			o.epochWB, o.epochWD, o.lastMalloc = false, false, 0
			x.st.flushes++
			return true
		}
		if err := lb.Flush(); err != nil {
			x.fail("flush_err", "Flush err=%v", err)
			return true
		}
		o.readable = append(o.readable, o.pending...)
		o.pending = o.pending[:0:0]
		o.appended = false
		o.epochWB, o.epochWD, o.lastMalloc = false, false, 0
		x.st.flushes++
		return true
	// ------------------------------------------------ book personality (connection input path)
	case "book":
		if o.kind != vlKindBook || op.N < 0 {
			return false
		}
		p := lb.book(o.bookSize, o.maxSize)
		n := op.N
		if n > len(p) {
			n = len(p)
		}
		vfFill(p[:n], op.S, 0)
		data := append([]byte(nil), p[:n]...)
		// connection.inputAck
		if n <= 0 {
			lb.bookAck(0)
			return true
		}
		if n == o.bookSize && o.bookSize < mallocMax {
			o.bookSize <<= 1
		}
		length, _ := lb.bookAck(n)
		if o.maxSize < length {
			o.maxSize = length
		}
		if o.maxSize > mallocMax {
			o.maxSize = mallocMax
		}
		o.readable = append(o.readable, data...)
		if length != len(o.readable) {
			x.fail("len", "bookAck(%d) length=%d, model %d", n, length, len(o.readable))
		}
		return true
	case "crelease":
		if o.kind != vlKindBook {
			return false
		}
		// connection.Release
		if lb.Len() == 0 {
			maxSize := lb.calcMaxSize()
			if maxSize > mallocMax {
				maxSize = mallocMax
			}
			if maxSize > o.maxSize {
				o.maxSize = maxSize
			}
			if lb.Len() == 0 {
				lb.resetTail(o.maxSize)
			}
		}
		o.live = nil // Release ends the life of every result handed out so far
		lb.Release()
		return true
	// ------------------------------------------------ lifecycle
	case "close":
		if o.kind == vlKindSlice {
			return false
		}
		o.live = nil
		lb.Close()
		o.dead = true
		return true
	}
	// ------------------------------------------------ readers (all kinds of object)
	rd := Reader(lb)
	have := len(o.readable)
	crossed := func(n int) bool { return lb.read != nil && n > 0 && n <= have && lb.read.Len() < n }
	switch op.K {
	case "len":
		return true // checked in afterOp
	case "next", "peek":
		n := op.N
		cr := crossed(n)
		var p []byte
		var err error
		if op.K == "next" {
			p, err = rd.Next(n)
		} else {
			p, err = rd.Peek(n)
		}
		if n <= 0 {
			if len(p) != 0 || err != nil {
				x.fail("read_ret", "%s(%d) = %d bytes, %v", op.K, n, len(p), err)
			}
			return true
		}
		if n > have {
			if err == nil {
				x.fail("read_ret", "%s(%d) succeeded with only %d readable", op.K, n, have)
			}
			return true
		}
		if err != nil {
			x.fail("read_ret", "%s(%d) failed with %d readable: %v", op.K, n, have, err)
			return true
		}
		if !x.expectBytes(op.K, p, o.readable[:n]) {
			return true
		}
		x.addLive(o, p, op.K+" result")
		if op.K == "next" {
			o.readable = o.readable[n:]
		}
		x.noteRead(o, cr)
		return true
	case "skip":
		n := op.N
		cr := crossed(n)
		err := rd.Skip(n)
		if n <= 0 {
			if err != nil {
				x.fail("read_ret", "Skip(%d) err=%v", n, err)
			}
			return true
		}
		if n > have {
			if err == nil {
				x.fail("read_ret", "Skip(%d) succeeded with only %d readable", n, have)
			}
			return true
		}
		if err != nil {
			x.fail("read_ret", "Skip(%d) failed with %d readable: %v", n, have, err)
			return true
		}
		o.readable = o.readable[n:]
		x.noteRead(o, cr)
		return true
	case "until":
		delim := byte(op.M)
		idx := bytes.IndexByte(o.readable, delim)
		cr := idx >= 0 && crossed(idx+1)
		// the search connection.Until resumes after a wait: first occurrence at or after `skip`
		// (skips spread over the stream, and ending just before the first node boundary)
		skips := []int{op.N, have / 2, have - 1}
		if lb.read != nil {
			if l0 := lb.read.Len(); l0 > 0 && l0 < have {
				skips = append(skips, l0-1, l0-1-int(op.S%64), l0)
			}
		}
		for _, sk := range skips {
			if sk < 0 || have == 0 {
				continue
			}
			want := -1
			if sk < have {
				if j := bytes.IndexByte(o.readable[sk:], delim); j >= 0 {
					want = sk + j
				}
			}
			if got := lb.indexByte(delim, sk); got != want {
				x.fail("read_ret", "indexByte(0x%02x, skip %d) = %d with %d readable bytes (first node holds %d), the stream has it at %d", delim, sk, got, have, lb.read.Len(), want)
				return true
			}
		}
		p, err := rd.Until(delim)
		if idx < 0 {
			if err == nil {
				x.fail("read_ret", "Until(0x%02x) succeeded (%d bytes) but the delimiter is not readable", delim, len(p))
			}
			return true
		}
		if err != nil {
			x.fail("read_ret", "Until(0x%02x) failed although the delimiter is at %d: %v", delim, idx, err)
			return true
		}
		if !x.expectBytes("until", p, o.readable[:idx+1]) {
			return true
		}
		x.addLive(o, p, "until result")
		o.readable = o.readable[idx+1:]
		x.noteRead(o, cr)
		return true
	case "rstr", "rbin":
		n := op.N
		cr := crossed(n)
		var p []byte
		var err error
		if op.K == "rbin" {
			p, err = rd.ReadBinary(n)
		} else {
			var s string
			s, err = rd.ReadString(n)
			p = unsafeStringToSlice(s)
		}
		if n <= 0 {
			if len(p) != 0 || err != nil {
				x.fail("read_ret", "%s(%d) = %d bytes, %v", op.K, n, len(p), err)
			}
			return true
		}
		if n > have {
			if err == nil {
				x.fail("read_ret", "%s(%d) succeeded with only %d readable", op.K, n, have)
			}
			return true
		}
		if err != nil {
			x.fail("read_ret", "%s(%d) failed with %d readable: %v", op.K, n, have, err)
			return true
		}
		if !x.expectBytes(op.K, p, o.readable[:n]) {
			return true
		}
		x.addWatch(p, op.K+" result (private copy)")
		o.readable = o.readable[n:]
		x.noteRead(o, cr)
		return true
	case "rbyte":
		b, err := rd.ReadByte()
		if have == 0 {
			if err == nil {
				x.fail("read_ret", "ReadByte succeeded on an empty buffer")
			}
			return true
		}
		if err != nil {
			x.fail("read_ret", "ReadByte failed with %d readable: %v", have, err)
			return true
		}
		if b != o.readable[0] {
			x.fail("wrong_bytes", "ReadByte = 0x%02x want 0x%02x", b, o.readable[0])
			return true
		}
		o.readable = o.readable[1:]
		x.noteRead(o, false)
		return true
	case "rcopy":
		if o.kind == vlKindSlice {
			return false
		}
		if op.N < 0 {
			return false
		}
		p := make([]byte, op.N)
		cr := crossed(op.N)
		n := lb.readCopy(p)
		want := op.N
		if want > have {
			want = have
		}
		if n != want {
			x.fail("read_ret", "readCopy(len %d) = %d with %d readable", op.N, n, have)
			return true
		}
		if !x.expectBytes("readCopy", p[:n], o.readable[:n]) {
			return true
		}
		x.addWatch(p, "Read destination")
		o.readable = o.readable[n:]
		x.noteRead(o, cr)
		return true
	case "bytes":
		if o.kind == vlKindSlice {
			return false
		}
		p := lb.Bytes()
		x.expectBytes("Bytes", p, o.readable)
		return true
	case "getbytes":
		if o.kind == vlKindSlice {
			return false
		}
		if op.M <= 0 {
			return false
		}
		arg := make([][]byte, op.M)
		vs := lb.GetBytes(arg)
		var cat []byte
		for _, v := range vs {
			cat = append(cat, v...)
		}
		if len(vs) < op.M {
			x.expectBytes("GetBytes(all)", cat, o.readable)
		} else if len(cat) > len(o.readable) || !bytes.Equal(cat, o.readable[:len(cat)]) {
			x.fail("wrong_bytes", "GetBytes(%d vectors) is not a prefix of the readable bytes (%d of %d)", op.M, len(cat), len(o.readable))
		}
		if x.viol == nil {
			for _, v := range vs {
				x.addLive(o, v, "GetBytes vector")
			}
		}
		return true
	case "slice":
		n := op.N
		cr := crossed(n)
		plive := o.live
		if n > 0 && n <= have {
			// "Slice will automatically execute a Release" (doc). The code does so only in the
			// multi-node case; treating both as a release is the weaker, sound reading.
			o.live = nil
		}
		r, err := rd.Slice(n)
		_ = plive
		if n > have {
			if err == nil {
				x.fail("read_ret", "Slice(%d) succeeded with only %d readable", n, have)
			}
			return true
		}
		if err != nil || r == nil {
			x.fail("read_ret", "Slice(%d) failed with %d readable: %v", n, have, err)
			return true
		}
		slb, ok := r.(*LinkBuffer)
		if !ok {
			vlHarness("Slice returned a non-LinkBuffer reader")
		}
		so := x.newObj(vlKindSlice, slb)
		so.parent = o.id
		if n > 0 {
			so.readable = append([]byte(nil), o.readable[:n]...)
			o.readable = o.readable[n:]
		}
		if r.Len() != len(so.readable) {
			x.fail("len", "Slice(%d).Len() = %d", n, r.Len())
		}
		x.noteRead(o, cr)
		return true
	case "release":
		if o.kind == vlKindBook {
			return false // the connection releases through crelease
		}
		o.live = nil // Release ends the life of every result handed out so far
		if err := rd.Release(); err != nil {
			x.fail("read_ret", "Release err=%v", err)
		}
		return true
	}
	vlHarness("unknown op kind " + op.K)
	return false
}

func (x *vlExec) noteRead(o *vlObj, crossed bool) {
	x.st.dataReads++
	o.reads++
	if crossed {
		x.st.crossReads++
	}
}

// markSplits flags ledger blocks that are now shared by two chain nodes (WriteDirect split).
func (x *vlExec) markSplits(o *vlObj) {
	seen := map[uintptr]int{}
	steps := 0
	for n := o.lb.head; n != nil && steps < 1<<20; n, steps = n.next, steps+1 {
		if cap(n.buf) == 0 {
			continue
		}
		b := vlBase(n.buf[:0])
		seen[b]++
	}
	for b, c := range seen {
		if c >= 2 {
			if blk := x.led.byBase[b]; blk != nil {
				blk.split = true
			}
		}
	}
}

// ---------------------------------------------------------------- checks after every op

func (x *vlExec) afterOp(op vlOp) {
	// C02: every live zero-copy result still has its content
	nlive := 0
	for _, o := range x.objs {
		for _, r := range o.live {
			nlive++
			if !bytes.Equal(r.p, r.snap) {
				i := 0
				for i < len(r.p) && r.p[i] == r.snap[i] {
					i++
				}
				split := false
				if blk := x.led.find(vlBase(r.p)); blk != nil {
					split = blk.split
				}
				x.raise("C02", "result_changed", fmt.Sprintf("%s (op %d, %d bytes) of unreleased reader %d changed at offset %d: 0x%02x -> 0x%02x", r.what, r.opIdx, len(r.p), o.id, i, r.snap[i], r.p[i]), split)
				return
			}
		}
	}
	if nlive > x.st.maxLive {
		x.st.maxLive = nlive
	}
	// C03: caller-owned memory is never written (very large slices are re-compared every 16th
	// operation and at teardown only: comparing 8MB after every step dominated the run time)
	for _, w := range x.watch {
		if len(w.p) > 1<<20 && x.opIdx%16 != 0 && op.K != "teardown" {
			continue
		}
		if !bytes.Equal(w.p, w.snap) {
			i := 0
			for i < len(w.p) && w.p[i] == w.snap[i] {
				i++
			}
			x.raise("C03", "caller_memory_written", fmt.Sprintf("%s (op %d, %d bytes) was modified at offset %d: 0x%02x -> 0x%02x", w.what, w.opIdx, len(w.p), i, w.snap[i], w.p[i]), false)
			return
		}
	}
	// C01: Len / MallocLen / structure of every live buffer
	var owner map[*linkBufferNode]int
	if len(x.objs) > 1 {
		owner = map[*linkBufferNode]int{}
	}
	for _, o := range x.objs {
		if o.dead {
			continue
		}
		if !o.appended {
			if got := o.lb.Len(); got != len(o.readable) {
				x.fail("len", "object %d: Len() = %d, model %d", o.id, got, len(o.readable))
				return
			}
			if o.kind == vlKindBuf {
				if got := o.lb.MallocLen(); got != len(o.pending) {
					x.fail("malloclen", "object %d: MallocLen() = %d, model %d", o.id, got, len(o.pending))
					return
				}
			}
		}
		if !x.walk(o, owner) {
			return
		}
	}
}

// walk checks the structural invariants of one buffer's node chain.
func (x *vlExec) walk(o *vlObj, owner map[*linkBufferNode]int) bool {
	lb := o.lb
	const bound = 1 << 20
	var sawRead, sawFlush, sawWrite bool
	sumRead, sumPend := 0, 0
	var shape uint64 = 1469598103934665603
	steps := 0
	if lb.head == nil {
		// only legal for closed/appended buffers (dead) — or a Slice reader fully released
		if o.kind != vlKindSlice && len(o.readable) > 0 {
			x.fail("structure", "object %d: head is nil with %d readable bytes", o.id, len(o.readable))
			return false
		}
		return true
	}
	for n := lb.head; n != nil; n = n.next {
		steps++
		if steps > bound {
			x.fail("structure", "object %d: node chain does not terminate (cycle)", o.id)
			return false
		}
		if owner != nil {
			if prev, dup := owner[n]; dup && prev != o.id {
				x.raise("C03", "node_shared", fmt.Sprintf("a linkBufferNode is reachable from two live buffers (%d and %d): node recycled while still linked", prev, o.id), false)
				return false
			}
			owner[n] = o.id
		}
		if n == lb.read {
			sawRead = true
		}
		if n.off < 0 || n.off > len(n.buf) || len(n.buf) > cap(n.buf) {
			x.fail("structure", "object %d: node off=%d len=%d cap=%d", o.id, n.off, len(n.buf), cap(n.buf))
			return false
		}
		if o.kind != vlKindSlice {
			if n == lb.flush {
				sawFlush = true
				if !sawRead {
					x.fail("structure", "object %d: flush node precedes read node", o.id)
					return false
				}
			}
			if sawRead && !sawFlush || n == lb.flush {
				sumRead += n.Len()
			}
			if sawFlush {
				if d := n.malloc - len(n.buf); d > 0 {
					sumPend += d
				} else if d < 0 && !o.appended {
					x.fail("structure", "object %d: node malloc=%d < len(buf)=%d", o.id, n.malloc, len(n.buf))
					return false
				}
				if n.malloc > cap(n.buf) {
					x.fail("structure", "object %d: node malloc=%d > cap=%d", o.id, n.malloc, cap(n.buf))
					return false
				}
			}
			if n == lb.write {
				sawWrite = true
				if !sawFlush {
					x.fail("structure", "object %d: write node precedes flush node", o.id)
					return false
				}
			}
		} else if sawRead {
			sumRead += n.Len()
		}
		// C03: a node that is still linked must not sit in a block already returned to the pool
		if cap(n.buf) > 0 {
			if blk := x.led.find(vlBase(n.buf[:0])); blk != nil && blk.freed {
				unread := sawRead && n.Len() > 0
				x.raise("C03", "linked_node_in_freed_block", fmt.Sprintf("object %d: a linked node (unread bytes: %v) lies in pool block #%d which was already returned", o.id, unread, blk.seq), blk.split)
				return false
			}
		}
		f := uint64(n.mode) | uint64(vlSizeClass(n.Len()))<<4
		if n.off == 0 {
			f |= 1 << 8
		}
		if n.malloc == cap(n.buf) {
			f |= 1 << 9
		}
		if n.origin != nil {
			f |= 1 << 10
		}
		shape = (shape ^ f) * 1099511628211
	}
	if len(x.st.shapes) < 1<<16 {
		x.st.shapes[shape] = struct{}{}
	}
	if o.appended {
		return true
	}
	if o.kind == vlKindSlice {
		if lb.read != nil && !sawRead {
			x.fail("structure", "object %d: read node not reachable from head", o.id)
			return false
		}
		if sumRead != len(o.readable) {
			x.fail("structure", "object %d (Slice reader): chain holds %d unread bytes, Len()=%d", o.id, sumRead, len(o.readable))
			return false
		}
		return true
	}
	if !sawRead || !sawFlush || !sawWrite {
		x.fail("structure", "object %d: head chain misses read=%v flush=%v write=%v", o.id, sawRead, sawFlush, sawWrite)
		return false
	}
	if sumRead != lb.Len() {
		x.fail("structure", "object %d: read..flush nodes hold %d bytes, Len()=%d", o.id, sumRead, lb.Len())
		return false
	}
	if o.kind == vlKindBuf && sumPend != lb.MallocLen() {
		x.fail("structure", "object %d: flush.. nodes hold %d pending bytes, MallocLen()=%d", o.id, sumPend, lb.MallocLen())
		return false
	}
	return true
}

// teardown drains nothing: it closes every buffer and releases every Slice reader (in the
// order of the object table rotated by the op count), then inspects the ledger.
func (x *vlExec) teardown() (v *vlViolation) {
	defer func() {
		if r := recover(); r != nil {
			if hv, ok := r.(*vlHarnessPanic); ok {
				panic(hv.msg)
			}
			if x.viol != nil {
				v = x.viol
				return
			}
			v = &vlViolation{Prop: "C01", Kind: "panic", Msg: fmt.Sprintf("panic in netpoll while closing/releasing: %v", r), OpIdx: x.opIdx, Op: "teardown", Detail: vfStack()}
		}
	}()
	n := len(x.objs)
	if n == 0 {
		return nil
	}
	start := len(x.prog.Ops) % n
	for i := 0; i < n; i++ {
		o := x.objs[(start+i)%n]
		if o.dead {
			continue
		}
		if o.kind == vlKindSlice {
			// read everything (content check), then release: the last reference goes away
			if l := o.lb.Len(); l > 0 {
				p, err := o.lb.Next(l)
				if err != nil || !bytes.Equal(p, o.readable) {
					prop, kind := "C02", "slice_reader_content"
					x.raise(prop, kind, fmt.Sprintf("Slice reader %d: final read of %d bytes err=%v differs from what was cut", o.id, l, err), false)
					return x.viol
				}
			}
			o.live = nil
			o.lb.Release()
		} else {
			o.live = nil
			o.lb.Close()
		}
		o.dead = true
		if x.viol != nil {
			return x.viol
		}
		x.afterOp(vlOp{K: "teardown"})
		if x.viol != nil {
			return x.viol
		}
	}
	return nil
}

// leaks reports the blocks still issued after teardown (informational: a leak does not
// contradict C03, which bounds returns from above).
func (x *vlExec) leaks() int {
	k := 0
	for _, b := range x.led.blocks {
		if !b.freed {
			k++
		}
	}
	return k
}

func vlSortedKeys(m map[string]int) []string {
	ks := make([]string, 0, len(m))
	for k := range m {
		ks = append(ks, k)
	}
	sort.Strings(ks)
	return ks
}
