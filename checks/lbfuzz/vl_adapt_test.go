// C16: stream adapters (NewReader / NewWriter / NewIOReader / NewIOWriter) against scripted
// io.Reader / io.Writer behaviours. The source and sink are the monitors: they know exactly
// which bytes they produced / accepted (position-keyed PRF stream), so any loss, duplication,
// reordering or injected garbage is visible at the first wrong byte.
package netpoll

import (
	"bytes"
	"encoding/json"
	"errors"
	"fmt"
	"io"
	"io/ioutil"
	"os"
	"sync/atomic"
	"testing"
	"time"
)

type vaStep struct {
	N   int `json:"n"`             // source: bytes delivered (<= asked); sink: bytes accepted (<= offered)
	Err int `json:"err,omitempty"` // 0 none, 1 io.EOF (source) / custom (sink), 2 custom error
}

type vaCase struct {
	Mode   string   `json:"mode"` // reader | writer | ioreader | iowriter
	Cap    int      `json:"link_buffer_cap"`
	Seed   uint64   `json:"stream_seed"`
	Script []vaStep `json:"script"`
	Ops    []vlOp   `json:"ops"`
}

var vaCustomErr = errors.New("verif: scripted failure")

// ------------------------------------------------------------------ scripted source

type vaSource struct {
	c        *vaCase
	step     int
	produced int
	calls    int
	errs     []error // errors returned during the current adapter call
	zero     int     // (0,nil) reads
	short    int
	withErr  int // data together with an error
}

func (s *vaSource) Read(p []byte) (int, error) {
	s.calls++
	if s.step >= len(s.c.Script) {
		s.errs = append(s.errs, io.EOF)
		return 0, io.EOF
	}
	st := s.c.Script[s.step]
	s.step++
	n := st.N
	if n > len(p) {
		n = len(p)
	}
	if n < len(p) {
		s.short++
	}
	vfFill(p[:n], s.c.Seed, uint64(s.produced))
	s.produced += n
	var err error
	switch st.Err {
	case 1:
		err = io.EOF
	case 2:
		err = vaCustomErr
	}
	if err != nil {
		s.errs = append(s.errs, err)
		if n > 0 {
			s.withErr++
		}
	} else if n == 0 {
		s.zero++
	}
	return n, err
}

// ------------------------------------------------------------------ scripted sink

type vaSink struct {
	c        *vaCase
	step     int
	accepted int
	want     []byte // every byte flushed so far, in order
	bad      string
	lastErr  error
	calls    int
	short    int
}

func (k *vaSink) Write(p []byte) (int, error) {
	k.calls++
	// the adapter must offer exactly the flushed bytes the sink has not accepted yet
	rest := k.want[k.accepted:]
	if !bytes.Equal(p, rest) && k.bad == "" {
		i := 0
		for i < len(p) && i < len(rest) && p[i] == rest[i] {
			i++
		}
		k.bad = fmt.Sprintf("sink Write #%d was offered %d bytes, expected the %d flushed-but-unaccepted bytes (first difference at %d, stream offset %d)", k.calls, len(p), len(rest), i, k.accepted+i)
	}
	n := len(p)
	var err error
	if k.step < len(k.c.Script) {
		st := k.c.Script[k.step]
		k.step++
		if st.N < n {
			n = st.N
			err = vaCustomErr // io.Writer: a short write must return an error
			k.short++
		} else if st.Err != 0 {
			err = vaCustomErr
		}
	}
	k.accepted += n
	k.lastErr = err
	return n, err
}

// ------------------------------------------------------------------ execution

type vaStats struct {
	ops, fills, zeroReads, shortReads, dataWithErr, errsSurfaced, shortWrites, flushes, slices int
}

func vaRaise(x *vlExec, kind, f string, a ...interface{}) {
	x.raise("C16", kind, fmt.Sprintf(f, a...), false)
}

// vaRun executes one adapter case; violations found by the buffer-level oracles of the
// embedded LinkBuffer keep their own property tag (C01-C03), adapter-level ones are C16.
func vaRun(c *vaCase) (x *vlExec, st vaStats, v *vlViolation) {
	prog := &vlProgram{Cfg: vlCfg{LinkBufferCap: c.Cap}, Ops: c.Ops}
	x = vlNewExec(prog)
	restore := x.begin()
	defer restore()
	defer func() {
		if r := recover(); r != nil {
			if hv, ok := r.(*vlHarnessPanic); ok {
				panic(hv.msg)
			}
			if x.viol != nil {
				v = x.viol
				return
			}
			v = &vlViolation{Prop: "C16", Kind: "panic", Msg: fmt.Sprintf("panic in netpoll inside an adapter call: %v", r), OpIdx: x.opIdx, Op: x.curOp.String(), Detail: vfStack()}
		}
	}()
	switch c.Mode {
	case "reader":
		v = vaRunReader(c, x, &st)
	case "writer":
		v = vaRunWriter(c, x, &st)
	case "ioreader", "iowriter":
		v = vaRunIO(c, x, &st)
	default:
		vlHarness("unknown adapter mode " + c.Mode)
	}
	return
}

func vaRunReader(c *vaCase, x *vlExec, st *vaStats) *vlViolation {
	src := &vaSource{c: c}
	total := 0
	for _, s := range c.Script {
		total += s.N
	}
	stream := make([]byte, total+8192)
	vfFill(stream, c.Seed, 0)
	rd := NewReader(src)
	zr, ok := rd.(*zcReader)
	if !ok {
		vlHarness("NewReader did not return *zcReader")
	}
	o := x.newObj(vlKindBuf, zr.buf)
	consumed := 0
	for i, op := range c.Ops {
		x.opIdx, x.curOp = i, op
		st.ops++
		before := src.produced - consumed
		src.errs = src.errs[:0]
		calls0 := src.calls
		n := op.N
		var err error
		var got []byte
		consumes := true
		isRead := true
		o.live = nil // adapter cases do not track result lifetime (C02 does that on the buffer)
		switch op.K {
		case "next":
			got, err = rd.Next(n)
		case "peek":
			got, err = rd.Peek(n)
			consumes = false
		case "skip":
			err = rd.Skip(n)
			got = nil
		case "rbin":
			got, err = rd.ReadBinary(n)
		case "rstr":
			var s string
			s, err = rd.ReadString(n)
			got = []byte(s)
		case "rbyte":
			n = 1
			var b byte
			b, err = rd.ReadByte()
			got = []byte{b}
		case "slice":
			var r Reader
			r, err = rd.Slice(n)
			if err == nil && r != nil && n > 0 {
				st.slices++
				if r.Len() != n {
					vaRaise(x, "slice_len", "Slice(%d).Len() = %d", n, r.Len())
					return x.viol
				}
				got, _ = r.Next(n)
				got = append([]byte(nil), got...)
				r.Release()
			}
		case "until":
			isRead = false
			delim := byte(op.M)
			buffered := stream[consumed:src.produced]
			idx := bytes.IndexByte(buffered, delim)
			line, e := rd.Until(delim)
			if e == nil {
				if idx < 0 || !bytes.Equal(line, buffered[:idx+1]) {
					vaRaise(x, "wrong_bytes", "Until(0x%02x) returned %d bytes, expected index %d in the buffered stream", delim, len(line), idx)
					return x.viol
				}
				consumed += idx + 1
			} else if idx >= 0 {
				vaRaise(x, "read_failed", "Until(0x%02x) failed although the delimiter is buffered at %d: %v", delim, idx, e)
				return x.viol
			}
		case "release":
			isRead = false
			rd.Release()
		case "len":
			isRead = false
		default:
			isRead = false
		}
		st.fills += src.calls - calls0
		if isRead {
			if n <= 0 {
				if err != nil || (op.K != "slice" && len(got) != 0) {
					vaRaise(x, "read_ret", "%s(%d) = %d bytes, %v", op.K, n, len(got), err)
					return x.viol
				}
			} else if err == nil {
				if len(src.errs) > 0 {
					vaRaise(x, "error_swallowed", "%s(%d) returned nil although the source returned %v during the call", op.K, n, src.errs[0])
					return x.viol
				}
				if consumed+n > src.produced {
					vaRaise(x, "read_ret", "%s(%d) succeeded but the source produced only %d bytes beyond the %d consumed", op.K, n, src.produced-consumed, consumed)
					return x.viol
				}
				want := stream[consumed : consumed+n]
				if op.K != "skip" && !bytes.Equal(got, want) {
					i := 0
					for i < len(got) && i < len(want) && got[i] == want[i] {
						i++
					}
					vaRaise(x, "wrong_bytes", "%s(%d): returned bytes differ from the source's stream at offset %d (stream position %d), len %d", op.K, n, i, consumed+i, len(got))
					return x.viol
				}
				if consumes {
					consumed += n
				}
			} else {
				// failure: legal only when the bytes were not buffered and the source failed
				if before >= n {
					vaRaise(x, "read_failed", "%s(%d) failed with %d bytes already buffered: %v", op.K, n, before, err)
					return x.viol
				}
				if len(src.errs) == 0 {
					vaRaise(x, "read_failed", "%s(%d) failed (%v) although the source reported no error", op.K, n, err)
					return x.viol
				}
				se := src.errs[len(src.errs)-1]
				if se == io.EOF {
					if !errors.Is(err, ErrEOF) {
						vaRaise(x, "error_mapping", "%s(%d): source returned io.EOF, adapter returned %v (not ErrEOF)", op.K, n, err)
						return x.viol
					}
				} else if !errors.Is(err, se) {
					vaRaise(x, "error_mapping", "%s(%d): source returned %v, adapter returned %v", op.K, n, se, err)
					return x.viol
				}
				st.errsSurfaced++
			}
		}
		// every byte the source produced is readable exactly once: buffered == produced - consumed
		o.readable = stream[consumed:src.produced]
		if got := rd.Len(); got != src.produced-consumed {
			vaRaise(x, "len", "after %s(%d): Len() = %d, source produced %d, consumed %d", op.K, n, got, src.produced, consumed)
			return x.viol
		}
		x.afterOp(op)
		if x.viol != nil {
			return x.viol
		}
	}
	// drain: everything produced so far must still be readable, in order
	if rest := src.produced - consumed; rest > 0 {
		x.opIdx, x.curOp = len(c.Ops), vlOp{K: "drain", N: rest}
		got, err := rd.Next(rest)
		if err != nil || !bytes.Equal(got, stream[consumed:src.produced]) {
			vaRaise(x, "wrong_bytes", "final drain of %d buffered bytes: err=%v, content differs from the source's stream", rest, err)
			return x.viol
		}
	}
	rd.Release()
	st.zeroReads, st.shortReads, st.dataWithErr = src.zero, src.short, src.withErr
	return x.viol
}

func vaRunWriter(c *vaCase, x *vlExec, st *vaStats) *vlViolation {
	sink := &vaSink{c: c}
	wr := NewWriter(sink)
	zw, ok := wr.(*zcWriter)
	if !ok {
		vlHarness("NewWriter did not return *zcWriter")
	}
	o := x.newObj(vlKindBuf, zw.buf)
	o.wr = wr
	o.flushFn = func() {
		sink.want = append(sink.want, o.pending...)
		offered := len(sink.want) - sink.accepted
		acc0, calls0 := sink.accepted, sink.calls
		err := wr.Flush()
		st.flushes++
		if sink.calls == calls0 && offered > 0 {
			vaRaise(x, "flush_no_write", "Flush with %d unsent bytes did not call the sink", offered)
			return
		}
		if sink.bad != "" {
			vaRaise(x, "sink_stream", "%s", sink.bad)
			return
		}
		if sink.calls > calls0 && err != sink.lastErr && !(err != nil && sink.lastErr != nil && errors.Is(err, sink.lastErr)) {
			vaRaise(x, "flush_err", "Flush returned %v, the sink returned %v", err, sink.lastErr)
			return
		}
		if err == nil && sink.accepted != len(sink.want) {
			vaRaise(x, "flush_short", "Flush returned nil but the sink accepted only %d of %d flushed bytes", sink.accepted, len(sink.want))
			return
		}
		_ = acc0
		// what the sink did not take stays queued in the adapter's buffer
		o.readable = sink.want[sink.accepted:]
	}
	// donors for Append
	for i, op := range c.Ops {
		x.opIdx, x.curOp = i, op
		st.ops++
		if op.K == "donor" {
			// a separate LinkBuffer with n flushed bytes, appended to the writer by a later "append"
			d := NewLinkBuffer(op.M)
			dob := x.newObj(vlKindBuf, d)
			p, _ := d.Malloc(op.N)
			vfFill(p, op.S, 0)
			d.Flush()
			dob.readable = append([]byte(nil), p...)
			continue
		}
		if v := x.step(op); v != nil {
			return v
		}
		if sink.bad != "" && x.viol == nil {
			vaRaise(x, "sink_stream", "%s", sink.bad)
		}
		if x.viol != nil {
			return x.viol
		}
	}
	// final flush until the sink has everything
	x.opIdx, x.curOp = len(c.Ops), vlOp{K: "final-flush"}
	for tries := 0; tries < len(c.Script)+4; tries++ {
		if o.appended || len(o.pending) > 0 || sink.accepted < len(sink.want) {
			x.apply(vlOp{K: "flush", B: 0})
			if x.viol != nil {
				return x.viol
			}
		}
	}
	if sink.accepted != len(sink.want) {
		vaRaise(x, "lost_bytes", "after the script ran out (sink accepts everything) %d of %d flushed bytes reached the sink", sink.accepted, len(sink.want))
	}
	st.shortWrites = sink.short
	return x.viol
}

func vaRunIO(c *vaCase, x *vlExec, st *vaStats) *vlViolation {
	lb := NewLinkBuffer(c.Script[0].N)
	o := x.newObj(vlKindBuf, lb)
	ior := NewIOReader(lb)
	iow := NewIOWriter(lb)
	if _, ok := ior.(*ioReader); !ok {
		vlHarness("NewIOReader(LinkBuffer) is not *ioReader")
	}
	for i, op := range c.Ops {
		x.opIdx, x.curOp = i, op
		st.ops++
		switch op.K {
		case "iowrite":
			p := x.payload(op.N, op.S)
			n, err := iow.Write(p)
			if err != nil || n != len(p) {
				vaRaise(x, "write_ret", "ioWriter.Write(%d) = %d, %v", len(p), n, err)
				return x.viol
			}
			o.readable = append(o.readable, p...)
			if (op.N+i)%2 == 0 {
				// io.Writer: "Write must not retain p" - the caller re-uses its slice at once (io.Copy,
				// bufio); what was written must still read back unchanged
				for k := range p {
					p[k] = 0xEE
				}
			} else {
				x.addWatch(p, "ioWriter.Write argument")
			}
			st.flushes++
		case "ioread":
			p := make([]byte, op.N)
			have := len(o.readable)
			o.live = nil // ioReader.Read releases the reader (documented)
			n, err := ior.Read(p)
			switch {
			case op.N == 0:
				if n != 0 || err != nil {
					vaRaise(x, "read_ret", "ioReader.Read(empty) = %d, %v", n, err)
				}
			case have == 0:
				if n != 0 || err != io.EOF {
					vaRaise(x, "read_ret", "ioReader.Read on an empty buffer = %d, %v (want 0, io.EOF)", n, err)
				}
			default:
				if err != nil || n < 1 || n > op.N || n > have {
					vaRaise(x, "read_ret", "ioReader.Read(len %d) with %d buffered = %d, %v", op.N, have, n, err)
				} else if !bytes.Equal(p[:n], o.readable[:n]) {
					vaRaise(x, "wrong_bytes", "ioReader.Read(len %d) returned bytes that are not the head of the stream", op.N)
				} else {
					o.readable = o.readable[n:]
					x.addWatch(p, "ioReader.Read destination")
				}
			}
		default:
			if v := x.step(op); v != nil {
				return v
			}
			continue
		}
		if x.viol != nil {
			return x.viol
		}
		x.afterOp(op)
		if x.viol != nil {
			return x.viol
		}
	}
	return x.viol
}

// ------------------------------------------------------------------ generation

func vaGenerate(seed uint64) *vaCase {
	r := vfNewRng(seed)
	c := &vaCase{Cap: vlCaps[r.intn(len(vlCaps))], Seed: r.next()}
	if r.chance(25) {
		c.Cap = 8192 // the only node size with which zcReader.fill mallocs into the flush node
	}
	switch r.intn(10) {
	case 0, 1, 2, 3:
		c.Mode = "reader"
	case 4, 5, 6, 7:
		c.Mode = "writer"
	case 8:
		c.Mode = "ioreader"
	default:
		c.Mode = "iowriter"
	}
	chunk := func() int {
		switch r.intn(10) {
		case 0:
			return 0
		case 1:
			return 1
		case 2:
			return r.rng(4095, 4097)
		case 3:
			return r.rng(4097, 9000)
		case 4, 5:
			return r.rng(1, 4096)
		default:
			return r.rng(1, 64)
		}
	}
	nsteps := r.rng(1, 24)
	nops := r.rng(3, 40)
	switch c.Mode {
	case "reader":
		for i := 0; i < nsteps; i++ {
			st := vaStep{N: chunk()}
			switch r.intn(12) {
			case 0:
				st.Err = 1
			case 1:
				st.Err = 2
			}
			c.Script = append(c.Script, st)
		}
		for i := 0; i < nops; i++ {
			n := chunk()
			if r.chance(10) {
				n = r.rng(4000, 20000)
			}
			k := []string{"next", "next", "peek", "skip", "rbin", "rstr", "rbyte", "slice", "release", "until", "len", "next"}[r.intn(12)]
			op := vlOp{K: k, N: n}
			if k == "until" {
				op.M = int(r.next() & 0xff)
			}
			c.Ops = append(c.Ops, op)
		}
	case "writer":
		for i := 0; i < nsteps; i++ {
			st := vaStep{N: 1 << 30}
			switch r.intn(6) {
			case 0:
				st.N = chunk() // short write
			case 1:
				st.N = 0
			case 2:
				st.Err = 2 // full write but an error
			}
			c.Script = append(c.Script, st)
		}
		pendingLen, lastMalloc := 0, 0
		wb, wd := false, false
		donors := 0
		appended := false
		for i := 0; i < nops; i++ {
			s := r.next()
			if appended {
				c.Ops = append(c.Ops, vlOp{K: "flush"})
				appended, pendingLen, lastMalloc, wb, wd = false, 0, 0, false, false
				continue
			}
			switch r.intn(14) {
			case 0, 1, 2:
				n := chunk()
				c.Ops = append(c.Ops, vlOp{K: "malloc", N: n, S: s})
				if n > 0 {
					pendingLen += n
					lastMalloc = n
				}
			case 3, 4:
				if wd {
					continue
				}
				n := chunk()
				c.Ops = append(c.Ops, vlOp{K: []string{"wbin", "wstr"}[r.intn(2)], N: n, S: s})
				if n > 0 {
					pendingLen += n
					wb, lastMalloc = true, 0
				}
			case 5:
				c.Ops = append(c.Ops, vlOp{K: "wbyte", S: s})
				pendingLen++
				lastMalloc = 1
			case 6:
				if wb {
					continue
				}
				rem := r.rng(0, lastMalloc)
				n := r.rng(1, 5000)
				c.Ops = append(c.Ops, vlOp{K: "wdirect", N: n, M: rem, S: s})
				pendingLen += n
				wd, lastMalloc = true, 0
			case 7:
				n := r.rng(0, pendingLen)
				if r.chance(30) {
					n = 0
				}
				c.Ops = append(c.Ops, vlOp{K: "mack", N: n})
				cut := pendingLen - n
				pendingLen = n
				lastMalloc -= cut
				if lastMalloc < 0 {
					lastMalloc = 0
				}
			case 8:
				if pendingLen == 0 && donors < 3 {
					n := r.rng(1, 6000)
					c.Ops = append(c.Ops, vlOp{K: "donor", N: n, M: r.rng(0, 4096), S: s})
					donors++
					c.Ops = append(c.Ops, vlOp{K: "append", B: 0, M: donors})
					appended = true
				}
			default:
				c.Ops = append(c.Ops, vlOp{K: "flush"})
				pendingLen, lastMalloc, wb, wd = 0, 0, false, false
			}
		}
	default:
		c.Script = []vaStep{{N: []int{0, 1, 64, 4096}[r.intn(4)]}}
		for i := 0; i < nops; i++ {
			if r.chance(50) {
				c.Ops = append(c.Ops, vlOp{K: "iowrite", N: chunk(), S: r.next()})
			} else {
				c.Ops = append(c.Ops, vlOp{K: "ioread", N: chunk()})
			}
		}
	}
	return c
}

func vaSig(c *vaCase) uint64 {
	h := vfMix(uint64(c.Cap) ^ uint64(len(c.Mode))<<20)
	for _, s := range c.Script {
		n := s.N
		if n > 1<<20 {
			n = 1 << 20
		}
		h = vfMix2(h, uint64(vlSizeClass(n))<<4|uint64(s.Err))
	}
	for _, op := range c.Ops {
		h = vfMix2(h, uint64(vlKindIdxA(op.K))<<8|uint64(vlSizeClass(op.N)))
	}
	return h
}

func vlKindIdxA(k string) int {
	if i := vlKindIdx(k); i >= 0 {
		return i
	}
	switch k {
	case "donor":
		return 100
	case "iowrite":
		return 101
	case "ioread":
		return 102
	}
	return 103
}

func vaNontrivial(c *vaCase) bool {
	// the script contains a short, empty or erroring step
	for _, s := range c.Script {
		if s.Err != 0 || s.N == 0 || s.N < 4096 {
			return true
		}
	}
	return false
}

func vaRec(kind string, idx int, seed uint64, c *vaCase, v *vlViolation) map[string]interface{} {
	return map[string]interface{}{
		"kind": kind, "engine": "lbfuzz", "case": idx, "case_seed": seed,
		"property": v.Prop, "oracle": v.Kind, "msg": v.Msg, "op_index": v.OpIdx, "op": v.Op,
		"detail": v.Detail, "adapter_case": c,
	}
}

func vaShrink(c *vaCase, v *vlViolation, budget int) (*vaCase, *vlViolation) {
	cur := *c
	try := func(cand *vaCase) bool {
		budget--
		_, _, v2 := vaRun(cand)
		if v2 != nil && v2.Prop == v.Prop && v2.Kind == v.Kind {
			cur, v = *cand, v2
			return true
		}
		return false
	}
	for pass := 0; pass < 3 && budget > 0; pass++ {
		for i := len(cur.Ops) - 1; i >= 0 && budget > 0; i-- {
			cand := cur
			cand.Ops = append(append([]vlOp(nil), cur.Ops[:i]...), cur.Ops[i+1:]...)
			try(&cand)
		}
		for i := len(cur.Script) - 1; i >= 0 && budget > 0 && len(cur.Script) > 1; i-- {
			cand := cur
			cand.Script = append(append([]vaStep(nil), cur.Script[:i]...), cur.Script[i+1:]...)
			try(&cand)
		}
	}
	return &cur, v
}

// TestVerifAdapt is the child-process entry point for C16.
func TestVerifAdapt(t *testing.T) {
	if path := os.Getenv("VERIF_REPLAY"); path != "" {
		b, err := ioutil.ReadFile(path)
		if err != nil {
			t.Fatal(err)
		}
		var rec struct {
			Case *vaCase `json:"adapter_case"`
		}
		if err := json.Unmarshal(b, &rec); err != nil || rec.Case == nil {
			t.Fatal("replay file has no adapter_case", err)
		}
		_, st, v := vaRun(rec.Case)
		if v != nil {
			vfEmit(vaRec("violation", -1, 0, rec.Case, v))
		}
		vfEmit(map[string]interface{}{"kind": "replay_done", "engine": "lbfuzz", "ops": st.ops, "violated": v != nil})
		return
	}
	seed := uint64(vfEnvInt("VERIF_SEED", 1))
	from := vfEnvInt("VERIF_FROM", 0)
	count := vfEnvInt("VERIF_COUNT", 1000)
	sigPrefix := os.Getenv("VERIF_SIGS")
	var cur int64 = -1
	stop := make(chan struct{})
	defer close(stop)
	go func() {
		last, since := int64(-2), time.Now()
		for {
			select {
			case <-stop:
				return
			case <-time.After(2 * time.Second):
			}
			c := atomic.LoadInt64(&cur)
			if c != last {
				last, since = c, time.Now()
				continue
			}
			if time.Since(since) > time.Duration(vfEnvInt("VERIF_HANG_S", 300))*time.Second {
				vfEmit(map[string]interface{}{"kind": "hang", "engine": "lbfuzz", "case": c, "case_seed": vfMix2(seed^0xada9, uint64(c))})
				os.Exit(7)
			}
		}
	}()
	var sigs []uint64
	var agg vaStats
	modes := map[string]int{}
	var samples []interface{}
	cases, nextCase := 0, from+count
	for idx := from; idx < from+count; idx++ {
		cs := vfMix2(seed^0xada9, uint64(idx))
		atomic.StoreInt64(&cur, int64(idx))
		vfProgress(vfSprintf("adapt case=%d seed=%d", idx, cs))
		c := vaGenerate(cs)
		_, st, v := vaRun(c)
		cases++
		modes[c.Mode]++
		agg.ops += st.ops
		agg.fills += st.fills
		agg.zeroReads += st.zeroReads
		agg.shortReads += st.shortReads
		agg.dataWithErr += st.dataWithErr
		agg.errsSurfaced += st.errsSurfaced
		agg.shortWrites += st.shortWrites
		agg.flushes += st.flushes
		agg.slices += st.slices
		if vaNontrivial(c) {
			sigs = append(sigs, vaSig(c))
			if len(samples) < 2 && len(c.Ops) <= 16 {
				samples = append(samples, map[string]interface{}{"case": idx, "case_seed": cs, "adapter_case": c})
			}
		}
		if v != nil {
			vfEmit(vaRec("violation", idx, cs, c, v))
			sc, sv := vaShrink(c, v, 1500)
			vfEmit(vaRec("shrunk", idx, cs, sc, sv))
			nextCase = idx + 1
			break
		}
	}
	atomic.StoreInt64(&cur, -3)
	vlWriteSigs(sigPrefix+".c16", sigs)
	vfEmit(map[string]interface{}{
		"kind": "stats", "engine": "lbfuzz", "from": from, "count": count, "cases": cases, "next_case": nextCase,
		"ops": agg.ops, "source_read_calls": agg.fills, "zero_byte_reads": agg.zeroReads, "short_reads": agg.shortReads,
		"reads_with_data_and_error": agg.dataWithErr, "source_errors_surfaced": agg.errsSurfaced,
		"short_writes": agg.shortWrites, "flushes": agg.flushes, "slices_cut_from_adapter": agg.slices,
		"nontrivial_c16": len(sigs), "cases_by_mode": modes, "samples": samples,
	})
}
