package netpoll

import (
	"encoding/binary"
	"encoding/json"
	"io/ioutil"
	"os"
	"sort"
	"strings"
	"sync/atomic"
	"testing"
	"time"
)

// known-finding predicates (read from /verif/known_findings.json by the driver and handed
// down through VERIF_KNOWN as JSON): a violation whose *first* failing observation has
// these root-cause attributes is attributed to the finding; exploration continues.
type vlKnown struct {
	ID       string   `json:"id"`
	Property string   `json:"property"`
	Status   string   `json:"status"`
	Match    struct {
		Oracles []string `json:"oracles"`
		Split   *bool    `json:"block_was_writedirect_split"`
		Engine  string   `json:"engine"`
	} `json:"match"`
}

func vlLoadKnown() []vlKnown {
	s := os.Getenv("VERIF_KNOWN")
	if s == "" {
		return nil
	}
	var ks []vlKnown
	if err := json.Unmarshal([]byte(s), &ks); err != nil {
		panic("VERIF_KNOWN: " + err.Error())
	}
	var out []vlKnown
	for _, k := range ks {
		if k.Status == "known" && (k.Match.Engine == "" || k.Match.Engine == "lbfuzz") {
			out = append(out, k)
		}
	}
	return out
}

func vlMatchKnown(ks []vlKnown, v *vlViolation) string {
	for _, k := range ks {
		if k.Property != v.Prop {
			continue
		}
		ok := len(k.Match.Oracles) == 0
		for _, o := range k.Match.Oracles {
			if o == v.Kind {
				ok = true
			}
		}
		if !ok {
			continue
		}
		if k.Match.Split != nil && *k.Match.Split != v.Split {
			continue
		}
		return k.ID
	}
	return ""
}

func vlSig(p *vlProgram, nops int) uint64 {
	h := vfMix(uint64(p.Cfg.LinkBufferCap))
	for i, op := range p.Ops {
		if i >= nops {
			break
		}
		h = vfMix2(h, uint64(vlKindIdx(op.K))<<8|uint64(vlSizeClass(op.N)))
	}
	return h
}

func vlWriteSigs(path string, sigs []uint64) {
	if path == "" {
		return
	}
	b := make([]byte, 8*len(sigs))
	for i, s := range sigs {
		binary.LittleEndian.PutUint64(b[8*i:], s)
	}
	ioutil.WriteFile(path, b, 0o644)
}

func vlViolRec(kind string, idx int, seed uint64, prog *vlProgram, v *vlViolation) map[string]interface{} {
	return map[string]interface{}{
		"kind": kind, "engine": "lbfuzz", "case": idx, "case_seed": seed,
		"property": v.Prop, "oracle": v.Kind, "msg": v.Msg, "op_index": v.OpIdx, "op": v.Op,
		"block_was_writedirect_split": v.Split, "detail": v.Detail, "program": prog,
	}
}

// TestVerifLB is the child-process entry point of the lbfuzz engine.
func TestVerifLB(t *testing.T) {
	if path := os.Getenv("VERIF_REPLAY"); path != "" {
		vlReplayFile(t, path)
		return
	}
	seed := uint64(vfEnvInt("VERIF_SEED", 1))
	from := vfEnvInt("VERIF_FROM", 0)
	count := vfEnvInt("VERIF_COUNT", 1000)
	sigPrefix := os.Getenv("VERIF_SIGS")
	known := vlLoadKnown()

	// in-process watchdog: a case that makes no progress for 60 s is reported as a hang
	var cur int64 = -1
	var curSeed uint64
	stop := make(chan struct{})
	defer close(stop)
	go func() {
		last, since := int64(-2), time.Now()
		for {
			select {
			case <-stop:
				return
			case <-time.After(2 * time.Second):
			}
			c := atomic.LoadInt64(&cur)
			if c != last {
				last, since = c, time.Now()
				continue
			}
			if time.Since(since) > time.Duration(vfEnvInt("VERIF_HANG_S", 300))*time.Second {
				vfEmit(map[string]interface{}{"kind": "hang", "engine": "lbfuzz", "case": c, "case_seed": atomic.LoadUint64(&curSeed)})
				os.Exit(7)
			}
		}
	}()

	var sig1, sig2, sig3 []uint64
	agg := vlStats{shapes: map[uint64]struct{}{}, bigrams: map[uint32]struct{}{}}
	var blocksIssued, blocksFreed, freesLive, leaks, knownHits int
	knownBy := map[string]int{}
	var samples []interface{}
	cases := 0
	nextCase := from + count
	for idx := from; idx < from+count; idx++ {
		cs := vfMix2(seed, uint64(idx))
		atomic.StoreUint64(&curSeed, cs)
		atomic.StoreInt64(&cur, int64(idx))
		vfProgress(vfSprintf("lbfuzz case=%d seed=%d", idx, cs))
		prog, x, v := vlGenerateAndRun(cs)
		cases++
		agg.ops += x.st.ops
		agg.crossReads += x.st.crossReads
		agg.crossWrites += x.st.crossWrites
		agg.flushes += x.st.flushes
		agg.dataReads += x.st.dataReads
		agg.liveTracked += x.st.liveTracked
		agg.liveDuringMut += x.st.liveDuringMut
		agg.watched += x.st.watched
		if x.st.maxLive > agg.maxLive {
			agg.maxLive = x.st.maxLive
		}
		for k := range x.st.shapes {
			if len(agg.shapes) < 1<<20 {
				agg.shapes[k] = struct{}{}
			}
		}
		for k := range x.st.bigrams {
			agg.bigrams[k] = struct{}{}
		}
		blocksIssued += x.led.mallocs
		blocksFreed += x.led.frees
		freesLive += x.led.freesLiv
		if v == nil {
			leaks += x.leaks()
		}
		nt1 := (x.st.crossReads+x.st.crossWrites) > 0 && x.st.flushes > 0 && x.st.dataReads > 0
		if nt1 {
			s := vlSig(prog, len(prog.Ops))
			sig1 = append(sig1, s)
			if x.st.liveDuringMut > 0 {
				sig2 = append(sig2, s)
			}
			if x.led.frees > 0 {
				sig3 = append(sig3, s)
			}
			if len(samples) < 2 && len(prog.Ops) <= 40 {
				samples = append(samples, map[string]interface{}{"case": idx, "case_seed": cs, "program": prog,
					"node_crossings": x.st.crossReads + x.st.crossWrites, "live_results_tracked": x.st.liveTracked, "pool_frees": x.led.frees})
			}
		}
		if v != nil {
			if id := vlMatchKnown(known, v); id != "" {
				knownHits++
				knownBy[id]++
				if knownBy[id] <= 2 {
					vfEmit(vlViolRec("known_hit", idx, cs, prog, v))
				}
				continue
			}
			vfEmit(vlViolRec("violation", idx, cs, prog, v))
			sp, sv := vlShrink(prog, v, 3000)
			rec := vlViolRec("shrunk", idx, cs, sp, sv)
			vfEmit(rec)
			nextCase = idx + 1
			break // shared pools may be corrupted now: the driver continues in a new process
		}
	}
	atomic.StoreInt64(&cur, -3)
	vlWriteSigs(sigPrefix+".c01", sig1)
	vlWriteSigs(sigPrefix+".c02", sig2)
	vlWriteSigs(sigPrefix+".c03", sig3)
	vfEmit(map[string]interface{}{
		"kind": "stats", "engine": "lbfuzz", "from": from, "count": count, "cases": cases, "next_case": nextCase,
		"ops": agg.ops, "node_crossing_reads": agg.crossReads, "node_crossing_writes": agg.crossWrites,
		"flushes": agg.flushes, "reads_returning_data": agg.dataReads,
		"live_results_tracked": agg.liveTracked, "max_simultaneously_live": agg.maxLive,
		"mutating_ops_with_live_results": agg.liveDuringMut, "caller_slices_watched": agg.watched,
		"pool_blocks_issued": blocksIssued, "pool_frees_checked": blocksFreed, "frees_while_results_live": freesLive,
		"blocks_never_returned_informational": leaks,
		"distinct_chain_shapes": len(agg.shapes), "distinct_op_bigrams_x_sizeclass": len(agg.bigrams),
		"nontrivial_c01": len(sig1), "nontrivial_c02": len(sig2), "nontrivial_c03": len(sig3),
		"known_hits": knownHits, "known_by": knownBy, "samples": samples,
	})
}

func vlReplayFile(t *testing.T, path string) {
	b, err := ioutil.ReadFile(path)
	if err != nil {
		t.Fatal(err)
	}
	var rec struct {
		Program vlProgram `json:"program"`
	}
	if err := json.Unmarshal(b, &rec); err != nil {
		t.Fatal(err)
	}
	x, v := vlReplay(&rec.Program)
	if v != nil {
		vfEmit(vlViolRec("violation", -1, 0, &rec.Program, v))
	}
	vfEmit(map[string]interface{}{"kind": "replay_done", "engine": "lbfuzz", "ops": x.st.ops, "skipped": x.st.skipped, "violated": v != nil})
}

// TestVerifLBMerge counts distinct signatures over the binary files named in VERIF_MERGE
// (comma separated) — the exact distinct_nontrivial figure of a run.
func TestVerifLBMerge(t *testing.T) {
	var all []uint64
	for _, p := range strings.Split(os.Getenv("VERIF_MERGE"), ",") {
		if p == "" {
			continue
		}
		b, err := ioutil.ReadFile(p)
		if err != nil {
			continue
		}
		for i := 0; i+8 <= len(b); i += 8 {
			all = append(all, binary.LittleEndian.Uint64(b[i:]))
		}
	}
	sort.Slice(all, func(i, j int) bool { return all[i] < all[j] })
	d := 0
	for i := range all {
		if i == 0 || all[i] != all[i-1] {
			d++
		}
	}
	vfEmit(map[string]interface{}{"kind": "merge", "total": len(all), "distinct": d})
}
