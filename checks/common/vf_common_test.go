// Shared helpers for every /verif engine (overlaid into the package under test).
// Nothing here knows about netpoll; it is output, seeding and the position-keyed
// pseudo-random byte streams used by all byte-stream oracles.
package netpoll

import (
	"encoding/json"
	"fmt"
	"os"
	"runtime"
	"strconv"
	"strings"
	"sync"
	"sync/atomic"
	"syscall"
	"time"
)

// ---------------------------------------------------------------- environment

func vfEnvInt(name string, def int) int {
	if s := os.Getenv(name); s != "" {
		if v, err := strconv.ParseInt(s, 10, 64); err == nil {
			return int(v)
		}
	}
	return def
}

func vfEnvStr(name, def string) string {
	if s := os.Getenv(name); s != "" {
		return s
	}
	return def
}

// ---------------------------------------------------------------- PRNG (splitmix64)

type vfRng struct{ s uint64 }

func vfMix(x uint64) uint64 {
	x += 0x9e3779b97f4a7c15
	x = (x ^ (x >> 30)) * 0xbf58476d1ce4e5b9
	x = (x ^ (x >> 27)) * 0x94d049bb133111eb
	return x ^ (x >> 31)
}

func vfMix2(a, b uint64) uint64 { return vfMix(vfMix(a) ^ (b * 0xd6e8feb86659fd93)) }

func vfNewRng(seed uint64) *vfRng { return &vfRng{s: vfMix(seed)} }

func (r *vfRng) next() uint64 {
	r.s += 0x9e3779b97f4a7c15
	z := r.s
	z = (z ^ (z >> 30)) * 0xbf58476d1ce4e5b9
	z = (z ^ (z >> 27)) * 0x94d049bb133111eb
	return z ^ (z >> 31)
}

func (r *vfRng) intn(n int) int {
	if n <= 0 {
		return 0
	}
	return int(r.next() % uint64(n))
}

// rng returns lo..hi inclusive.
func (r *vfRng) rng(lo, hi int) int {
	if hi <= lo {
		return lo
	}
	return lo + r.intn(hi-lo+1)
}

func (r *vfRng) chance(pct int) bool { return r.intn(100) < pct }

// ---------------------------------------------------------------- PRF byte streams

// vfByteAt is byte number pos of stream seed.
func vfByteAt(seed, pos uint64) byte {
	w := vfMix2(seed, pos>>3)
	return byte(w >> ((pos & 7) * 8))
}

// vfFill writes stream[pos:pos+len(p)] into p.
func vfFill(p []byte, seed, pos uint64) {
	i := 0
	for i < len(p) {
		w := vfMix2(seed, pos>>3)
		for k := pos & 7; k < 8 && i < len(p); k++ {
			p[i] = byte(w >> (k * 8))
			i++
			pos++
		}
	}
}

// vfCheck compares p with stream[pos:pos+len(p)] and returns the index of the first
// mismatch or -1.
func vfCheck(p []byte, seed, pos uint64) int {
	i := 0
	for i < len(p) {
		w := vfMix2(seed, pos>>3)
		for k := pos & 7; k < 8 && i < len(p); k++ {
			if p[i] != byte(w>>(k*8)) {
				return i
			}
			i++
			pos++
		}
	}
	return -1
}

// ---------------------------------------------------------------- JSON-lines output

var (
	vfOutMu   sync.Mutex
	vfOutFile *os.File
)

func vfOpenOut() {
	vfOutMu.Lock()
	defer vfOutMu.Unlock()
	if vfOutFile != nil {
		return
	}
	path := os.Getenv("VERIF_OUT")
	if path == "" {
		vfOutFile = os.Stdout
		return
	}
	f, err := os.OpenFile(path, os.O_CREATE|os.O_WRONLY|os.O_APPEND, 0o644)
	if err != nil {
		panic(err)
	}
	vfOutFile = f
}

// vfEmit writes one JSON record (a line) to the result file.
func vfEmit(rec map[string]interface{}) {
	vfOpenOut()
	b, err := json.Marshal(rec)
	if err != nil {
		b, _ = json.Marshal(map[string]interface{}{"kind": "harness_error", "msg": "marshal: " + err.Error()})
	}
	vfOutMu.Lock()
	vfOutFile.Write(append(b, '\n'))
	vfOutMu.Unlock()
}

// vfProgress overwrites a small side file with the case about to run, so that a
// fatal error or a hang can be attributed by the driver.
var vfProgFD = -1

func vfProgress(s string) {
	if vfProgFD == -1 {
		path := os.Getenv("VERIF_PROGRESS")
		if path == "" {
			vfProgFD = -2
			return
		}
		fd, err := syscall.Open(path, syscall.O_CREAT|syscall.O_WRONLY, 0o644)
		if err != nil {
			vfProgFD = -2
			return
		}
		vfProgFD = fd
	}
	if vfProgFD < 0 {
		return
	}
	b := make([]byte, 256)
	for i := range b {
		b[i] = ' '
	}
	copy(b, s)
	b[255] = '\n'
	syscall.Pwrite(vfProgFD, b, 0)
}

// ---------------------------------------------------------------- misc

func vfStack() string {
	buf := make([]byte, 16<<10)
	n := runtime.Stack(buf, false)
	return string(buf[:n])
}

// vfStackInNetpoll reports whether a panic stack has a frame in netpoll's own
// (non-harness) code above the harness frames, i.e. the panic was raised inside netpoll.
func vfPanicSite(stack string) string {
	lines := strings.Split(stack, "\n")
	// the frame below "panic(...)" is where the panic was raised
	for i := 0; i+3 < len(lines); i++ {
		if strings.HasPrefix(lines[i], "panic(") {
			for j := i + 2; j+1 < len(lines); j += 2 {
				if !strings.HasPrefix(lines[j], "runtime.") {
					return lines[j] + " @ " + strings.TrimSpace(lines[j+1])
				}
			}
		}
	}
	return ""
}

var vfSeq uint64

func vfNextSeq() uint64 { return atomic.AddUint64(&vfSeq, 1) }

var vfT0 = time.Now()

// vfNow is a monotonic nanosecond clock shared by everything in the process.
func vfNow() int64 { return int64(time.Since(vfT0)) }

func vfSprintf(f string, a ...interface{}) string { return fmt.Sprintf(f, a...) }
