// C15 (error paths): the same three observers - close audit, census, strace - over lifecycles
// whose system calls fail at netpoll's own syscall wrappers (verifFault): failed socket(),
// failed socket options, failed connect (immediately or in SO_ERROR), failed accept, failed
// epoll_create / epoll_ctl(ADD|MOD), failed readv/sendmsg. The injected errno is returned
// *instead of* entering the kernel, which is what a real failure of these calls leaves behind
// (nothing created, nothing registered, nothing transferred). epoll_ctl(DEL) is not failed
// artificially: a fake failure would leave a registration the kernel knows and netpoll does
// not, a state no real failure produces.
package netpoll

import (
	"context"
	"net"
	"syscall"
	"time"
)

var vc15FaultKinds = []string{"fault-dial", "fault-dial-unix", "fault-accept", "fault-io", "fault-poller", "fault-fdconn"}

var vcErrnoBy = map[int][]syscall.Errno{
	vfltSocket:         {syscall.EMFILE, syscall.ENFILE, syscall.ENOBUFS, syscall.ENOMEM},
	vfltSockopt:        {syscall.EINVAL, syscall.ENOPROTOOPT, syscall.ENOBUFS},
	vfltConnect:        {syscall.ECONNREFUSED, syscall.ENETUNREACH, syscall.EADDRNOTAVAIL, syscall.ETIMEDOUT, syscall.EAGAIN, syscall.EACCES},
	vfltConnectSoError: {syscall.ECONNREFUSED, syscall.ETIMEDOUT, syscall.EHOSTUNREACH, syscall.ECONNRESET},
	vfltAccept:         {syscall.ECONNABORTED, syscall.EMFILE, syscall.ENFILE, syscall.ENOBUFS, syscall.ENOMEM, syscall.EINTR, syscall.EPROTO},
	vfltEpollCreate:    {syscall.EMFILE, syscall.ENFILE, syscall.ENOMEM},
	vfltEpollCtlAdd:    {syscall.ENOMEM, syscall.ENOSPC, syscall.EPERM},
	vfltEpollCtlMod:    {syscall.ENOMEM, syscall.ENOENT},
	vfltSendmsg:        {syscall.EPIPE, syscall.ECONNRESET, syscall.ENOBUFS, syscall.ENOMEM, syscall.EINTR, syscall.EAGAIN},
	vfltReadv:          {syscall.ECONNRESET, syscall.ETIMEDOUT, syscall.ENOMEM, syscall.EIO},
}

// vcFaultRuleFor draws one rule for a site: a few calls pass, then 1-3 fail.
func vcFaultRuleFor(r *vfRng, site, fd int) *vcFaultRule {
	es := vcErrnoBy[site]
	return &vcFaultRule{Site: site, Errno: es[r.intn(len(es))], FD: fd, Skip: int64(r.intn(3)), Count: int64(r.rng(1, 3))}
}

func vc15FaultAct(t *vcTrial, act string, r *vfRng, tmp string, unixPath func() string) {
	arm := func(rules ...*vcFaultRule) *vcFaultPlan {
		p := &vcFaultPlan{Seed: r.next(), Rules: rules}
		vcSetFaults(p)
		return p
	}
	disarm := func(p *vcFaultPlan) {
		vcSetFaults(nil)
		t.Stat("faults_injected", int(p.Fired()))
		for _, ru := range p.Rules {
			if ru.fired > 0 {
				t.Stat("faults@"+vcFaultSiteNames[ru.Site], int(ru.fired))
			}
		}
	}
	discard := func(ctx context.Context, rec *vcConnRec) error {
		rec.Conn.Reader().Skip(rec.Conn.Reader().Len())
		return nil
	}
	switch act {
	case "fault-dial", "fault-dial-unix":
		network, addr := "tcp", "127.0.0.1:0"
		if act == "fault-dial-unix" {
			network, addr = "unix", unixPath()
		}
		ln, err := net.Listen(network, addr)
		if err != nil {
			return
		}
		defer ln.Close()
		go func() {
			for {
				c, err := ln.Accept()
				if err != nil {
					return
				}
				go func() { time.Sleep(time.Millisecond); c.Close() }()
			}
		}()
		sites := []int{vfltSocket, vfltSockopt, vfltConnect, vfltConnectSoError, vfltEpollCtlAdd, vfltEpollCtlAdd, vfltConnect}
		for i := 0; i < r.rng(1, 5); i++ {
			ru := vcFaultRuleFor(r, sites[r.intn(len(sites))], -1)
			ru.Skip = int64(r.intn(2))
			p := arm(ru)
			c, err := DialConnection(network, ln.Addr().String(), 300*time.Millisecond)
			if err == nil && !vcIsNilConn(c) {
				if r.chance(50) {
					c.Writer().WriteBinary([]byte("hello"))
					c.Writer().Flush()
				}
				if r.chance(30) {
					time.Sleep(2 * time.Millisecond) // the peer closes first
				}
				disarm(p)
				c.Close()
			} else {
				disarm(p)
			}
		}
	case "fault-accept":
		srv, err := vcStartServer(vcSrvOpts{Network: []string{"tcp", "unix"}[r.intn(2)], NCloseCb: 1, OnRequest: discard})
		if err != nil {
			return
		}
		var raws []net.Conn
		for i := 0; i < r.rng(1, 5); i++ {
			site := []int{vfltAccept, vfltEpollCtlAdd}[r.intn(2)]
			ru := vcFaultRuleFor(r, site, -1)
			ru.Skip = int64(r.intn(2))
			p := arm(ru)
			raw, err := vcDialRaw(srv)
			if err == nil {
				raws = append(raws, raw)
				raw.Write([]byte("x"))
				srv.nextAccepted(time.Duration(r.rng(5, 60)) * time.Millisecond)
			}
			disarm(p)
			if r.chance(50) {
				time.Sleep(time.Duration(r.rng(1, 15)) * time.Millisecond) // the delayed re-registration after EMFILE
			}
		}
		for _, raw := range raws {
			raw.Close()
		}
		srv.Stop(2 * time.Second)
	case "fault-io":
		srv, err := vcStartServer(vcSrvOpts{Network: []string{"tcp", "unix"}[r.intn(2)], NCloseCb: 1, OnRequest: discard})
		if err != nil {
			return
		}
		raw, err := vcDialRaw(srv)
		if err != nil {
			srv.Stop(2 * time.Second)
			return
		}
		rec := srv.nextAccepted(2 * time.Second)
		if rec != nil {
			site := []int{vfltReadv, vfltSendmsg}[r.intn(2)]
			ru := vcFaultRuleFor(r, site, rec.FD)
			p := arm(ru)
			for k := 0; k < r.rng(1, 6); k++ {
				raw.Write(make([]byte, r.rng(1, 3000)))
				if r.chance(60) {
					func() {
						defer func() { recover() }() // D22: a writer racing the teardown may panic; not this check's subject
						rec.Conn.Writer().WriteBinary(make([]byte, r.rng(1, 3000)))
						rec.Conn.Writer().Flush()
					}()
				}
				time.Sleep(time.Duration(r.rng(50, 800)) * time.Microsecond)
			}
			disarm(p)
			if r.chance(50) {
				rec.Conn.Close()
			}
		}
		raw.Close()
		if rec != nil {
			rec.waitClosed(2 * time.Second)
		}
		srv.Stop(2 * time.Second)
	case "fault-poller":
		// private manager: growth that fails half-way must not leave the pollers opened so far
		// (epoll + eventfd each) behind once the manager is closed
		m := newManager(r.rng(1, 3))
		pick := func() {
			defer func() { recover() }() // Pick on a manager whose Run failed: C18's subject, not this check's
			m.Pick()
		}
		pick()
		if r.chance(35) {
			// real exhaustion instead of an injected errno: exactly one descriptor slot is left when the
			// next poller is opened, so epoll_create succeeds and the eventfd behind it fails (there is
			// no wrapper around eventfd2 to inject at)
			var lim syscall.Rlimit
			if syscall.Getrlimit(syscall.RLIMIT_NOFILE, &lim) == nil {
				probe, _ := syscall.Dup(0)
				syscall.Close(probe)
				low := syscall.Rlimit{Cur: uint64(probe + 1), Max: lim.Max}
				if syscall.Setrlimit(syscall.RLIMIT_NOFILE, &low) == nil {
					m.SetNumLoops(r.rng(2, 7))
					pick()
					syscall.Setrlimit(syscall.RLIMIT_NOFILE, &lim)
					t.Stat("poller_open_under_rlimit", 1)
				}
			}
		} else {
			site := []int{vfltEpollCreate, vfltEpollCtlAdd}[r.intn(2)]
			ru := vcFaultRuleFor(r, site, -1)
			ru.Count = 1
			p := arm(ru)
			m.SetNumLoops(r.rng(2, 7))
			pick()
			disarm(p)
		}
		if r.chance(50) {
			m.SetNumLoops(1)
			pick()
		}
		m.Close()
	case "fault-fdconn":
		fds, err := syscall.Socketpair(syscall.AF_UNIX, syscall.SOCK_STREAM, 0)
		if err != nil {
			return
		}
		ru := vcFaultRuleFor(r, vfltEpollCtlAdd, fds[0])
		ru.Skip = 0
		p := arm(ru)
		c, err := NewFDConnection(fds[0])
		disarm(p)
		if err == nil {
			c.Close()
		}
		// on failure netpoll has adopted and must have closed the descriptor itself (as in
		// "fdconn-unpollable"): the ledger reports it as not_closed otherwise
		syscall.Close(fds[1])
	}
}

// vcTransientFaults: sendmsg reports EAGAIN with the given per-mille probability - the real
// errno of a full socket buffer; the call transferred nothing. (readv is not failed with
// EAGAIN/EINTR: once a descriptor is readable a non-blocking read cannot return either, and the
// first version, which injected them, raised a false alarm inside the poller's drain-before-
// hang-up loop - see DESIGN.md, triage log.)
func vcTransientFaults(seed uint64, pm int) *vcFaultPlan {
	return &vcFaultPlan{Seed: seed, Rules: []*vcFaultRule{
		{Site: vfltSendmsg, Errno: syscall.EAGAIN, FD: -1, PerMille: pm},
	}}
}
