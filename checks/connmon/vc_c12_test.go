// C12: a closed connection answers with errors, not panics or hangs.
// C10 (part): stale calls on a closed connection whose slot/descriptor were re-issued.
package netpoll

import (
	"context"
	"errors"
	"fmt"
	"io"
	"net"
	"sync"
	"sync/atomic"
	"syscall"
	"time"
)

func init() {
	vcScenarios["C12"] = vcScenC12
	vcDirected["C12"] = []vcScenario{
		func(t *vcTrial) { vcRunC12ReleaseVsClose(t, false) },
		func(t *vcTrial) { vcRunC12ReleaseVsClose(t, true) },
	}
}

type vc12Cell struct {
	CloseMode string // user | peer | peer-user | detach
	Input     bool   // input buffered at close time
	Output    bool   // output pending (malloc'd, not flushed) at close time
	Callbacks bool   // server-side connection with OnRequest/OnConnect, else dialed client without
	Reissue   bool   // run the calls after the slot (and fd) went to a new connection (joins C10)
}

func vc12Cells() []vc12Cell {
	var cells []vc12Cell
	for _, m := range []string{"user", "peer", "peer-user", "detach"} {
		for _, in := range []bool{false, true} {
			for _, out := range []bool{false, true} {
				for _, cb := range []bool{false, true} {
					for _, re := range []bool{false, true} {
						cells = append(cells, vc12Cell{m, in, out, cb, re})
					}
				}
			}
		}
	}
	return cells
}

type vc12Call struct {
	Name string
	Kind string // reader-need | reader-any | writer | misc | close
	Fn   func(c Connection, n int) (err error, got []byte)
}

func vc12Calls() []vc12Call {
	big := 1 << 16
	return []vc12Call{
		{"Next", "reader-need", func(c Connection, n int) (error, []byte) { p, e := c.Reader().Next(n + big); return e, p }},
		{"Peek", "reader-need", func(c Connection, n int) (error, []byte) { p, e := c.Reader().Peek(n + big); return e, p }},
		{"Skip", "reader-need", func(c Connection, n int) (error, []byte) { return c.Reader().Skip(n + big), nil }},
		{"ReadString", "reader-need", func(c Connection, n int) (error, []byte) { s, e := c.Reader().ReadString(n + big); return e, []byte(s) }},
		{"ReadBinary", "reader-need", func(c Connection, n int) (error, []byte) { p, e := c.Reader().ReadBinary(n + big); return e, p }},
		{"Slice", "reader-need", func(c Connection, n int) (error, []byte) { _, e := c.Reader().Slice(n + big); return e, nil }},
		{"Until", "reader-until", func(c Connection, n int) (error, []byte) { p, e := c.Reader().Until(0xFE); return e, p }},
		{"ReadByte", "reader-byte", func(c Connection, n int) (error, []byte) {
			b, e := c.Reader().ReadByte()
			return e, []byte{b}
		}},
		{"Read", "reader-read", func(c Connection, n int) (error, []byte) {
			p := make([]byte, 64)
			m, e := c.(io.Reader).Read(p)
			return e, p[:m]
		}},
		{"Len", "misc", func(c Connection, n int) (error, []byte) { c.Reader().Len(); return nil, nil }},
		{"Release", "misc", func(c Connection, n int) (error, []byte) { return c.Reader().Release(), nil }},
		{"Malloc", "writer", func(c Connection, n int) (error, []byte) { _, e := c.Writer().Malloc(10); return e, nil }},
		{"WriteString", "writer", func(c Connection, n int) (error, []byte) { _, e := c.Writer().WriteString("0123456789"); return e, nil }},
		{"WriteBinary", "writer", func(c Connection, n int) (error, []byte) { _, e := c.Writer().WriteBinary(make([]byte, 5000)); return e, nil }},
		{"WriteByte", "writer", func(c Connection, n int) (error, []byte) { return c.Writer().WriteByte(7), nil }},
		{"WriteDirect", "writer", func(c Connection, n int) (error, []byte) { return c.Writer().WriteDirect([]byte("direct"), 0), nil }},
		{"MallocAck", "writer", func(c Connection, n int) (error, []byte) { return c.Writer().MallocAck(0), nil }},
		{"Append", "writer", func(c Connection, n int) (error, []byte) {
			lb := NewLinkBuffer(16)
			b, _ := lb.Malloc(4)
			copy(b, "abcd")
			lb.Flush()
			return c.Writer().Append(lb), nil
		}},
		{"Flush", "writer", func(c Connection, n int) (error, []byte) { return c.Writer().Flush(), nil }},
		{"Write", "writer", func(c Connection, n int) (error, []byte) { _, e := c.Write([]byte("hello")); return e, nil }},
		{"MallocLen", "misc", func(c Connection, n int) (error, []byte) { c.Writer().MallocLen(); return nil, nil }},
		{"IsActive", "active", func(c Connection, n int) (error, []byte) {
			if c.IsActive() {
				return errors.New("IsActive() == true"), nil
			}
			return nil, nil
		}},
		{"SetReadTimeout", "misc", func(c Connection, n int) (error, []byte) { c.SetReadTimeout(25 * time.Second); return nil, nil }},
		{"SetWriteTimeout", "misc", func(c Connection, n int) (error, []byte) { c.SetWriteTimeout(time.Second); return nil, nil }},
		{"SetIdleTimeout", "misc", func(c Connection, n int) (error, []byte) { c.SetIdleTimeout(time.Minute); return nil, nil }},
		{"SetReadDeadline", "misc", func(c Connection, n int) (error, []byte) {
			c.SetReadDeadline(time.Now().Add(40 * time.Second))
			return nil, nil
		}},
		{"Addrs", "misc", func(c Connection, n int) (error, []byte) { c.LocalAddr(); c.RemoteAddr(); return nil, nil }},
		{"AddCloseCallback", "misc", func(c Connection, n int) (error, []byte) {
			c.AddCloseCallback(func(Connection) error { return nil })
			return nil, nil
		}},
		{"SetOnRequest", "misc", func(c Connection, n int) (error, []byte) {
			c.SetOnRequest(func(ctx context.Context, c Connection) error {
				c.Reader().Skip(c.Reader().Len())
				return nil
			})
			return nil, nil
		}},
		{"Close", "close", func(c Connection, n int) (error, []byte) { return c.Close(), nil }},
	}
}

// vc12Bystander is a live echo connection that must stay intact and served while stale
// calls run on a closed connection that once owned its slot.
type vc12Bystander struct {
	conn   Connection
	peer   net.Conn
	seed   uint64
	sent   uint64
	back   uint64
	cbHits int32 // callbacks of the bystander invoked (its OnRequest) - counted for information
	closed int32 // its close callback ran (must stay 0)
}

func (b *vc12Bystander) roundTrip(n int, d time.Duration) error {
	p := make([]byte, n)
	vfFill(p, b.seed, b.sent)
	b.peer.SetDeadline(time.Now().Add(d))
	if _, err := b.peer.Write(p); err != nil {
		return fmt.Errorf("bystander peer write: %v", err)
	}
	b.sent += uint64(n)
	q := make([]byte, n)
	if _, err := io.ReadFull(b.peer, q); err != nil {
		return fmt.Errorf("bystander echo of %d bytes not received: %v", n, err)
	}
	if i := vfCheck(q, b.seed, b.back); i >= 0 {
		return fmt.Errorf("bystander echo differs at stream position %d (foreign or lost bytes)", b.back+uint64(i))
	}
	b.back += uint64(n)
	return nil
}

func vcScenC12(t *vcTrial) {
	r := t.R
	cells := vc12Cells()
	if r.intn(25) == 0 {
		vcRunC12ReleaseVsClose(t, r.chance(50))
		return
	}
	var cell vc12Cell
	if t.Idx >= 0 {
		cell = cells[t.Idx%len(cells)]
	} else {
		cell = cells[r.intn(len(cells))]
	}
	vcRunC12(t, cell)
}

func vcRunC12(t *vcTrial, cell vc12Cell) {
	r := t.R
	t.P("cell", fmt.Sprintf("%+v", cell))
	seed := r.next()
	nIn := 0
	if cell.Input {
		nIn = r.rng(1, 3000)
	}
	// ---- build the connection under test (A) and its raw peer
	var A Connection
	var peer net.Conn
	var rec *vcConnRec
	var srv *vcSrv
	var ln net.Listener
	holdHandler := make(chan struct{})
	var once sync.Once
	releaseHandler := func() { once.Do(func() { close(holdHandler) }) }
	defer releaseHandler()
	if cell.Callbacks {
		so := vcSrvOpts{Network: "tcp", NCloseCb: 2}
		so.OnConnect = func(ctx context.Context, rec *vcConnRec) {}
		so.OnRequest = func(ctx context.Context, rec *vcConnRec) error {
			// leaves the input buffered (the cell wants buffered input at close time) by blocking
			// until the harness releases it; afterwards it drains like a correct handler
			<-holdHandler
			rec.Conn.Reader().Skip(rec.Conn.Reader().Len())
			rec.Conn.Reader().Release()
			return nil
		}
		var err error
		srv, err = vcStartServer(so)
		if err != nil {
			t.Inconclusive("server: %v", err)
			return
		}
		defer srv.Stop(2 * time.Second)
		peer, err = vcDialRaw(srv)
		if err != nil {
			t.Inconclusive("dial: %v", err)
			return
		}
		rec = srv.nextAccepted(3 * time.Second)
		if rec == nil {
			t.Inconclusive("accept not seen")
			return
		}
		A = rec.Conn
	} else {
		var err error
		ln, err = net.Listen("tcp", "127.0.0.1:0")
		if err != nil {
			t.Inconclusive("listen: %v", err)
			return
		}
		defer ln.Close()
		acc := make(chan net.Conn, 1)
		go func() {
			c, err := ln.Accept()
			if err == nil {
				acc <- c
			}
		}()
		A, err = DialConnection("tcp", ln.Addr().String(), 5*time.Second)
		if err != nil {
			t.Inconclusive("dial: %v", err)
			return
		}
		select {
		case peer = <-acc:
		case <-time.After(5 * time.Second):
			t.Inconclusive("accept timeout")
			return
		}
		rec = &vcConnRec{ID: vcConnID(A), Conn: A, done: make(chan struct{})}
		rec.registerCloseCallbacks(A, 2)
	}
	defer peer.Close()
	inner := vcInner(A)
	opA := inner.operator
	mark := vcTraceMark()
	// ---- bring it into the cell's state
	if nIn > 0 {
		p := make([]byte, nIn)
		vfFill(p, seed, 0)
		peer.Write(p)
		dl := time.Now().Add(3 * time.Second)
		for inner.inputBuffer.Len() < nIn && time.Now().Before(dl) {
			time.Sleep(50 * time.Microsecond)
		}
		if inner.inputBuffer.Len() < nIn {
			t.Inconclusive("input did not arrive")
			return
		}
	}
	// half of the trials: a timed read really waited before the close, so the connection's read
	// timer exists and a timeout stays configured for the calls after the close
	timedBefore := r.chance(50) && !(cell.Callbacks && nIn > 0)
	if timedBefore {
		A.SetReadTimeout(time.Duration(r.rng(1, 5)) * time.Millisecond)
		A.Reader().Next(nIn + 1000) // times out
		A.SetReadTimeout(300 * time.Millisecond)
	}
	t.P("timed_read_before_close", timedBefore)
	if cell.Output {
		if b, err := A.Writer().Malloc(100); err == nil {
			vfFill(b, seed^1, 0)
		}
	}
	switch cell.CloseMode {
	case "user":
		A.Close()
	case "peer":
		peer.Close()
	case "peer-user":
		peer.Close()
		vcWaitPoint(mark, vpOnHupAfterDisconnect, rec.ID, 3*time.Second)
		A.Close()
	case "detach":
		inner.Detach()
	}
	// the handler (if one is parked on the buffered input) may finish now
	if cell.CloseMode == "peer" && !cell.Callbacks {
		// a client connection without callbacks is only *marked* closed by the poller; wait for that
		if !vcWaitPoint(mark, vpOnHupAfterDisconnect, rec.ID, 3*time.Second) {
			t.Inconclusive("hang-up not processed")
			return
		}
	}
	inBuffered := inner.inputBuffer.Len()
	peerOnly := cell.CloseMode == "peer"
	if !(peerOnly && !cell.Callbacks) {
		releaseHandler()
		if !rec.waitClosed(5*time.Second) || !vcWaitPoint(mark, vpFinalizerAfterClose, rec.ID, 5*time.Second) {
			t.Inconclusive("close did not complete (mode %s)", cell.CloseMode)
			return
		}
		inBuffered = 0
	}
	if cell.CloseMode == "detach" {
		defer func() {
			// the descriptor is ours now
			if fd := inner.fd; fd > 2 {
				closeFD(fd)
			}
		}()
	}
	// ---- optionally let the slot (and descriptor number) go to a new connection B
	var by *vc12Bystander
	if cell.Reissue && !(peerOnly && !cell.Callbacks) {
		by = vc12MakeBystander(t, opA, r.next())
		if by == nil {
			if t.inconclusive == "" {
				t.Stat("reissue_not_achieved", 1)
			}
		} else {
			defer by.peer.Close()
			defer func() {
				if !t.Violated() { // after a violation the bystander's slot may be wedged: the process ends anyway
					by.conn.Close()
				}
			}()
			t.Stat("slot_reissued", 1)
			if by.conn.(Conn).Fd() == inner.fd {
				t.Stat("fd_number_reissued", 1)
			}
		}
	}
	// ---- timer configuration in force while the calls are made: none, a read timeout, or a read
	// deadline in the future (the error classes below must not depend on it; an already expired
	// deadline is left out - there a timeout error is as true as the close error)
	switch tcfg := r.intn(4); tcfg {
	case 1:
		A.SetReadTimeout(20 * time.Second)
		t.P("timer_config", "read timeout")
	case 2:
		A.SetReadDeadline(time.Now().Add(30 * time.Second))
		t.P("timer_config", "read deadline")
	case 3:
		A.SetReadTimeout(20 * time.Second)
		A.SetWriteDeadline(time.Now().Add(30 * time.Second))
		t.P("timer_config", "read timeout + write deadline")
	}
	// ---- the calls, in a random order, each in its own goroutine with recover
	calls := vc12Calls()
	for i := len(calls) - 1; i > 0; i-- {
		j := r.intn(i + 1)
		calls[i], calls[j] = calls[j], calls[i]
	}
	readPos := uint64(0)
	ncalls := 0
	closeCalled := false
	handlerInstalled := false
	for ci, call := range calls {
		reps := 1
		if r.chance(25) {
			reps = 3
		}
		for rep := 0; rep < reps; rep++ {
			type res struct {
				err error
				got []byte
				pan interface{}
				st  string
			}
			ch := make(chan res, 1)
			have := inner.inputBuffer.Len()
			callMark := vcTraceMark()
			go func() {
				var x res
				defer func() {
					if p := recover(); p != nil {
						x.pan, x.st = p, vfStack()
					}
					ch <- x
				}()
				x.err, x.got = call.Fn(A, have)
			}()
			var x res
			select {
			case x = <-ch:
			case <-time.After(4 * time.Second):
				// purely local calls: not returned although the runner (and poller) made progress => blocks
				if vcRunnerProgress(5, 5*time.Second) && (by == nil || by.roundTrip(8, 3*time.Second) == nil) {
					select {
					case x = <-ch:
					default:
						t.Violate("C12", "blocks", "%s on a connection closed by %s (cell %+v) has not returned after 4s while the runner and the poller made progress", call.Name, cell.CloseMode, cell)
						t.P("stuck_stacks", vcStacksContaining("vc12Calls"))
						return
					}
				} else {
					t.Inconclusive("%s did not return and the canary made no progress", call.Name)
					return
				}
			}
			ncalls++
			if call.Name == "SetOnRequest" {
				// From here on the handler task owns the reader: with input buffered on a closed
				// connection it starts at once, consumes, runs the close callbacks and recycles the
				// buffers on its own goroutine. Calling Reader methods beside it would be the harness
				// breaking the one-reader rule, so the history waits until that teardown is complete.
				handlerInstalled = true
				cid := vcConnID(A)
				if !vcSeenSince(t.Mark, vpCloseCbDone, cid) {
					if vcWaitPoint(callMark, vpTaskStart, cid, 20*time.Millisecond) {
						vcWaitPoint(callMark, vpCloseCbDone, cid, 5*time.Second)
					}
				}
			}
			desc := fmt.Sprintf("%s (call %d, rep %d) on a connection closed by %s, input buffered at that time %d, cell %+v", call.Name, ci, rep, cell.CloseMode, have, cell)
			if x.pan != nil {
				kind, prop := "panic", "C12"
				if t.Scen == "C10" && by != nil {
					prop = "C10" // a stale call on the old owner of a re-issued slot
				}
				t.Violate(prop, kind, "%s panicked: %v (slot re-issued to another connection: %v)", desc, x.pan, by != nil)
				t.P("panic_stack", x.st)
				return
			}
			peerOnly := peerOnly && !closeCalled
			switch call.Kind {
			case "writer":
				if x.err == nil || !errors.Is(x.err, ErrConnClosed) {
					t.Violate("C12", "writer_error", "%s returned %v, want ErrConnClosed", desc, x.err)
				}
			case "reader-need":
				if x.err == nil {
					t.Violate("C12", "reader_error", "%s succeeded although it asked for more than the %d buffered bytes", desc, have)
				} else if !errors.Is(x.err, ErrConnClosed) {
					t.Violate("C12", "reader_error", "%s returned %v, which does not match ErrConnClosed", desc, x.err)
				} else if peerOnly && !errors.Is(x.err, ErrEOF) {
					t.Violate("C12", "reader_error", "%s: the peer closed (no local close) but the error %v does not match ErrEOF", desc, x.err)
				}
			case "reader-byte", "reader-read":
				if have > 0 && peerOnly && !cell.Callbacks && !handlerInstalled {
					// buffered bytes remain readable after a peer close
					if x.err != nil {
						t.Violate("C12", "buffered_unreadable", "%s failed with %v although %d bytes are still buffered after the peer closed", desc, x.err, have)
					} else if i := vfCheck(x.got, seed, readPos); i >= 0 {
						t.Violate("C12", "buffered_corrupt", "%s returned bytes that are not the buffered stream (offset %d)", desc, i)
					} else {
						readPos += uint64(len(x.got))
					}
				} else if have == 0 {
					if x.err == nil {
						t.Violate("C12", "reader_error", "%s succeeded on a closed connection with nothing buffered", desc)
					} else if !errors.Is(x.err, ErrConnClosed) {
						t.Violate("C12", "reader_error", "%s returned %v, which does not match ErrConnClosed", desc, x.err)
					}
				}
			case "reader-until":
				if x.err == nil {
					// legal only if the delimiter really is in the buffered stream
					if len(x.got) == 0 || x.got[len(x.got)-1] != 0xFE {
						t.Violate("C12", "reader_error", "%s succeeded without finding its delimiter", desc)
					}
				} else if !errors.Is(x.err, ErrConnClosed) {
					t.Violate("C12", "reader_error", "%s returned %v, which does not match ErrConnClosed", desc, x.err)
				}
				readPos += uint64(len(x.got))
			case "active":
				if x.err != nil {
					t.Violate("C12", "isactive", "%s: %v", desc, x.err)
				}
			case "close":
				closeCalled = true
				if x.err != nil {
					t.Violate("C12", "close_not_idempotent", "%s returned %v", desc, x.err)
				}
			}
			if t.Violated() {
				return
			}
		}
	}
	_ = inBuffered
	// Close must not have started a second callback round
	if !(peerOnly && !cell.Callbacks) {
		time.Sleep(300 * time.Microsecond)
		if msg := rec.checkCloseCallbacks(); msg != "" {
			t.Violate("C05", "close_callbacks", "after the calls on the closed connection: %s", msg)
		}
	}
	// ---- the bystander must be untouched and still served
	if by != nil {
		for i := 0; i < 3; i++ {
			if err := by.roundTrip(r.rng(1, 2000), 5*time.Second); err != nil {
				state := atomic.LoadInt32(&vcInner(by.conn).operator.state)
				if vcRunnerProgress(5, 5*time.Second) {
					t.Violate("C10", "bystander_disturbed", "after stale calls on a closed connection whose poller slot was re-issued: %v (slot state of the bystander = %d, 1 is normal)", err, state)
				} else {
					t.Inconclusive("bystander echo failed and the runner canary made no progress: %v", err)
				}
				return
			}
		}
		if atomic.LoadInt32(&by.closed) != 0 {
			t.Violate("C10", "bystander_closed", "the close callback of the bystander ran although only the old connection was touched")
		}
	}
	t.Stat("calls_made", ncalls)
	t.Nontrivial = true
	t.Sig = fmt.Sprintf("%+v", cell)
}

// vc12MakeBystander opens connections until one owns the operator slot `want` (the slot of the
// closed connection); it returns nil if that does not happen within a few attempts.
func vc12MakeBystander(t *vcTrial, want *FDOperator, seed uint64) *vc12Bystander {
	ln, err := net.Listen("tcp", "127.0.0.1:0")
	if err != nil {
		return nil
	}
	defer ln.Close()
	var spare []func()
	defer func() {
		for _, f := range spare {
			f()
		}
	}()
	for try := 0; try < 6; try++ {
		acc := make(chan net.Conn, 1)
		go func() {
			c, err := ln.Accept()
			if err == nil {
				acc <- c
			}
		}()
		c, err := DialConnection("tcp", ln.Addr().String(), 5*time.Second)
		if err != nil {
			return nil
		}
		var peer net.Conn
		select {
		case peer = <-acc:
		case <-time.After(5 * time.Second):
			c.Close()
			return nil
		}
		if vcInner(c).operator == want {
			b := &vc12Bystander{conn: c, peer: peer, seed: seed}
			c.AddCloseCallback(func(Connection) error { atomic.StoreInt32(&b.closed, 1); return nil })
			c.SetOnRequest(func(ctx context.Context, c Connection) error {
				atomic.AddInt32(&b.cbHits, 1)
				n := c.Reader().Len()
				p, err := c.Reader().Next(n)
				if err != nil {
					return nil
				}
				out, _ := c.Writer().Malloc(n)
				copy(out, p)
				c.Reader().Release()
				c.Writer().Flush()
				return nil
			})
			if err := b.roundTrip(64, 5*time.Second); err != nil {
				t.Inconclusive("bystander warm-up failed: %v", err)
				c.Close()
				peer.Close()
				return nil
			}
			return b
		}
		cc, pp := c, peer
		spare = append(spare, func() { cc.Close(); pp.Close() })
	}
	return nil
}

func closeFD(fd int) { syscall.Close(fd) }

// vcRunC12ReleaseVsClose: Reader.Release on an empty buffer has taken the operator token when the
// connection is closed from another goroutine (or by the peer's hang-up followed by a user Close).
// Neither call may block: the token must come back whatever Release finds, or the teardown
// (operator.Free waits for it) never completes. Placed with a callback at ReleaseTokenTaken on the
// releasing goroutine.
func vcRunC12ReleaseVsClose(t *vcTrial, peerFirst bool) {
	t.P("variant", "Release holding the operator token when the connection is closed")
	t.P("peer_hangs_up_first", peerFirst)
	fds, err := syscall.Socketpair(syscall.AF_UNIX, syscall.SOCK_STREAM, 0)
	if err != nil {
		t.Inconclusive("socketpair: %v", err)
		return
	}
	peerOpen := true
	defer func() {
		if peerOpen {
			syscall.Close(fds[1])
		}
	}()
	c, err := NewFDConnection(fds[0])
	if err != nil {
		syscall.Close(fds[0])
		t.Inconclusive("NewFDConnection: %v", err)
		return
	}
	id := vcConnID(c)
	closeRet := make(chan struct{})
	var placed int32
	vcPointCallback.Store(func(pid int, obj uintptr, arg int) {
		if pid != vpReleaseTokenTaken || obj != id || !atomic.CompareAndSwapInt32(&placed, 0, 1) {
			return
		}
		m := vcTraceMark()
		if peerFirst {
			// the poller cannot dispatch the hang-up while Release holds the token: the user's Close
			// still comes first, the hang-up event is waiting behind it
			syscall.Close(fds[1])
			peerOpen = false
		}
		go func() { c.Close(); close(closeRet) }()
		if !vcWaitPoint(m, vpOnCloseWon, id, 2*time.Second) {
			return
		}
		time.Sleep(200 * time.Microsecond)
		atomic.StoreInt32(&placed, 2)
	})
	defer vcPointCallback.Store(func(id int, obj uintptr, arg int) {})
	relRet := make(chan error, 1)
	go func() { relRet <- c.Reader().Release() }()
	select {
	case <-relRet:
	case <-time.After(20 * time.Second):
		if vcRunnerProgress(5, 5*time.Second) {
			t.Violate("C12", "call_blocks", "Reader.Release() on a connection that was closed while the call held the operator token has not returned after 20 s")
		} else {
			t.Inconclusive("Release did not return, canary without progress")
		}
		return
	}
	if atomic.LoadInt32(&placed) != 2 {
		select {
		case <-closeRet:
		default:
			c.Close()
		}
		t.Inconclusive("the close could not be placed inside Release (placed=%d)", atomic.LoadInt32(&placed))
		return
	}
	select {
	case <-closeRet:
	case <-time.After(30 * time.Second):
		stuck := vcStacksContaining("netpoll.(*connection).Close")
		if len(stuck) > 0 && vcRunnerProgress(5, 5*time.Second) {
			t.Violate("C12", "close_blocks", "Close() called while Reader.Release() held the operator token (empty buffer, connection active at its first check) has not returned 30 s after Release returned: the token was not given back and the teardown waits for it for ever")
			t.P("stuck_stacks", stuck)
		} else {
			t.Inconclusive("Close did not return within 30s")
		}
		return
	}
	// idempotent afterwards
	func() {
		defer func() {
			if p := recover(); p != nil {
				t.Violate("C12", "panic", "second Close panicked: %v", p)
			}
		}()
		c.Close()
		c.Reader().Release()
	}()
	t.Stat("release_vs_close_placed", 1)
	t.Nontrivial, t.Sig = true, fmt.Sprintf("release-vs-close|peer=%v", peerFirst)
}
