// C14: a dial ends in a usable connection or a clean error within its timeout.
package netpoll

import (
	"context"
	"fmt"
	"io"
	"io/ioutil"
	"net"
	"os"
	"path/filepath"
	"reflect"
	"sort"
	"strings"
	"sync"
	"sync/atomic"
	"syscall"
	"time"
)

func init() {
	vcScenarios["C14"] = vcScenC14
	vcDirected["C14"] = []vcScenario{
		// D6: the timeout error must report Timeout()
		func(t *vcTrial) { vcRunC14(t, vc14Cfg{Target: "drop", Dials: 3, TimeoutUs: 30000}) },
		func(t *vcTrial) { vcRunC14(t, vc14Cfg{Target: "accept", Dials: 8, TimeoutUs: 2000000}) },
		func(t *vcTrial) { vcRunC14(t, vc14Cfg{Target: "refuse", Dials: 4, TimeoutUs: 500000}) },
		func(t *vcTrial) { vcRunC14(t, vc14Cfg{Target: "accept", Dials: 16, TimeoutUs: 1}) },
		func(t *vcTrial) { vcRunC14Storm(t, 240000, 8) },
		func(t *vcTrial) { vcRunC14(t, vc14Cfg{Target: "accept", Dials: 64, TimeoutUs: 1000000, FaultPM: 300}) },
		func(t *vcTrial) { vcRunC14(t, vc14Cfg{Target: "unix", Dials: 16, TimeoutUs: 1000000, FaultPM: 700}) },
		vcRunC14PersistentFault,
	}
}

type vc14Cfg struct {
	Target    string // accept | accept6 | unix | refuse | refuse-unix | missing-unix | drop | rst
	Dials     int
	TimeoutUs int
	Mode      int
	P, Q      int
	FaultPM   int // > 0: netpoll's own system calls of the dial path fail with this per-mille probability
}

var vc14P = []int{vpDialBeforeWait, vpDialCtxDone, vpDialBeforeFree, vpDialOnWrite, vpDialOnHup}
var vc14Q = []int{vpDialOnWrite, vpDialOnHup, vpPollEvent, vpPollBatchEnd, vpDialCtxDone, vpPollSkip}

func vcScenC14(t *vcTrial) {
	r := t.R
	if r.intn(40) == 0 {
		vcRunC14Storm(t, r.rng(40000, 160000), r.rng(2, 12))
		return
	}
	if r.intn(10) == 0 {
		vcRunC14Multi(t)
		return
	}
	cfg := vc14Cfg{}
	cfg.Target = []string{"accept", "accept", "accept6", "unix", "refuse", "refuse-unix", "missing-unix", "drop", "rst"}[r.intn(9)]
	cfg.Dials = []int{1, 1, 2, 4, 16, 64}[r.intn(6)]
	cfg.TimeoutUs = []int{1, 20, 100, 500, 5000, 50000, 1000000}[r.intn(7)]
	if cfg.Target == "drop" {
		cfg.TimeoutUs = []int{100, 5000, 30000, 80000}[r.intn(4)]
		cfg.Dials = vcMinInt(cfg.Dials, 16)
	}
	switch r.intn(3) {
	case 0:
		cfg.Mode = vcModeJitter
	case 1:
		cfg.Mode = vcModePause
		cfg.P = vc14P[r.intn(len(vc14P))]
		cfg.Q = vc14Q[r.intn(len(vc14Q))]
	}
	if r.chance(25) {
		cfg.FaultPM = []int{30, 100, 300, 700}[r.intn(4)]
	}
	vcRunC14(t, cfg)
}

// vcOpenFDs lists the process's descriptors with their link targets.
func vcOpenFDs() map[int]string {
	out := map[int]string{}
	ents, err := ioutil.ReadDir("/proc/self/fd")
	if err != nil {
		return out
	}
	for _, e := range ents {
		var fd int
		if _, err := fmt.Sscanf(e.Name(), "%d", &fd); err != nil {
			continue
		}
		l, err := os.Readlink(filepath.Join("/proc/self/fd", e.Name()))
		if err != nil || strings.HasPrefix(l, "/proc/") {
			continue // the directory handle of this very listing
		}
		if strings.HasPrefix(l, "pipe:") {
			// netpoll never creates pipes; the standard library's io.Copy between two TCP
			// connections (the harness's echo peers) splices through a pooled pipe pair
			continue
		}
		out[fd] = l
	}
	return out
}

func vcFDDiff(before, after map[int]string) []string {
	var d []string
	for fd, l := range after {
		if _, ok := before[fd]; !ok {
			d = append(d, fmt.Sprintf("%d->%s", fd, l))
		}
	}
	sort.Strings(d)
	return d
}

func vcIsNilConn(c Connection) bool {
	if c == nil {
		return true
	}
	v := reflect.ValueOf(c)
	return v.Kind() == reflect.Ptr && v.IsNil()
}

func vcRunC14(t *vcTrial, cfg vc14Cfg) {
	r := t.R
	t.P("cfg", fmt.Sprintf("%+v", cfg))
	t.P("P", vcPointName(cfg.P))
	t.P("Q", vcPointName(cfg.Q))
	audit := vcStartAudit()
	// ---- the target
	network, addr := "tcp", ""
	var cleanup []func()
	defer func() {
		for i := len(cleanup) - 1; i >= 0; i-- {
			cleanup[i]()
		}
	}()
	echoServe := func(ln net.Listener, rst bool) {
		go func() {
			for {
				c, err := ln.Accept()
				if err != nil {
					return
				}
				if rst {
					vcRST(c)
					continue
				}
				go func(c net.Conn) {
					defer c.Close()
					io.Copy(c, c)
				}(c)
			}
		}()
	}
	switch cfg.Target {
	case "accept", "rst":
		ln, err := net.Listen("tcp", "127.0.0.1:0")
		if err != nil {
			t.Inconclusive("listen: %v", err)
			return
		}
		cleanup = append(cleanup, func() { ln.Close() })
		echoServe(ln, cfg.Target == "rst")
		addr = ln.Addr().String()
	case "accept6":
		ln, err := net.Listen("tcp6", "[::1]:0")
		if err != nil {
			cfg.Target = "accept"
			ln, err = net.Listen("tcp", "127.0.0.1:0")
			if err != nil {
				t.Inconclusive("listen: %v", err)
				return
			}
		}
		cleanup = append(cleanup, func() { ln.Close() })
		echoServe(ln, false)
		addr = ln.Addr().String()
	case "unix":
		network = "unix"
		addr = filepath.Join(vcTempDir(), fmt.Sprintf("d%d.sock", atomic.AddUint64(&vcSockSeq, 1)))
		ln, err := net.Listen("unix", addr)
		if err != nil {
			t.Inconclusive("listen: %v", err)
			return
		}
		cleanup = append(cleanup, func() { ln.Close(); os.Remove(addr) })
		echoServe(ln, false)
	case "refuse":
		ln, err := net.Listen("tcp", "127.0.0.1:0")
		if err != nil {
			t.Inconclusive("listen: %v", err)
			return
		}
		addr = ln.Addr().String()
		ln.Close() // the port stays unused for a moment: connection refused
	case "refuse-unix":
		network = "unix"
		addr = filepath.Join(vcTempDir(), fmt.Sprintf("d%d.sock", atomic.AddUint64(&vcSockSeq, 1)))
		ln, err := net.Listen("unix", addr)
		if err != nil {
			t.Inconclusive("listen: %v", err)
			return
		}
		ln.(*net.UnixListener).SetUnlinkOnClose(false)
		ln.Close() // the path exists, nobody listens
		cleanup = append(cleanup, func() { os.Remove(addr) })
	case "missing-unix":
		network = "unix"
		addr = filepath.Join(vcTempDir(), "no-such-socket")
	case "drop":
		// a listener with backlog 0 whose accept queue is full: further SYNs are dropped silently
		fd, err := syscall.Socket(syscall.AF_INET, syscall.SOCK_STREAM, 0)
		if err != nil {
			t.Inconclusive("socket: %v", err)
			return
		}
		cleanup = append(cleanup, func() { syscall.Close(fd) })
		sa := &syscall.SockaddrInet4{}
		copy(sa.Addr[:], net.IPv4(127, 0, 0, 1).To4())
		if err := syscall.Bind(fd, sa); err != nil {
			t.Inconclusive("bind: %v", err)
			return
		}
		if err := syscall.Listen(fd, 0); err != nil {
			t.Inconclusive("listen: %v", err)
			return
		}
		lsa, _ := syscall.Getsockname(fd)
		port := lsa.(*syscall.SockaddrInet4).Port
		addr = fmt.Sprintf("127.0.0.1:%d", port)
		// saturate the accept queue with held connections
		held := 0
		for i := 0; i < 3; i++ {
			c, err := net.DialTimeout("tcp", addr, 200*time.Millisecond)
			if err != nil {
				break
			}
			held++
			cc := c
			cleanup = append(cleanup, func() { cc.Close() })
		}
		if held == 0 {
			// a starved harness can run out of its 200 ms before the connect is even issued: then
			// the queue is not known to be full and a later success would prove nothing
			t.Inconclusive("the accept queue of the dropping listener could not be saturated")
			return
		}
	}
	// ---- baseline censuses (after the target exists)
	time.Sleep(2 * time.Millisecond)
	before := vcOpenFDs()
	switch cfg.Mode {
	case vcModeJitter:
		t.Plan = &vcPlan{Mode: vcModeJitter, Seed: r.next(), JitterPM: r.rng(50, 400), MaxSleep: time.Duration(r.rng(1, 300)) * time.Microsecond}
	case vcModePause:
		t.Plan = &vcPlan{Mode: vcModePause, P: cfg.P, Q: cfg.Q, ArgQ: -1, Timeout: time.Duration(r.rng(1, 8)) * time.Millisecond}
	}
	vcSetPlan(t.Plan)
	defer vcSetPlan(nil)
	var faults *vcFaultPlan
	if cfg.FaultPM > 0 {
		// failing socket/setsockopt/connect/SO_ERROR/epoll_ctl at netpoll's wrappers: every dial must
		// still end in exactly one of connection/error and leave nothing behind
		faults = &vcFaultPlan{Seed: r.next()}
		for _, site := range []int{vfltSocket, vfltSockopt, vfltConnect, vfltConnectSoError, vfltEpollCtlAdd, vfltEpollCtlMod} {
			es := vcErrnoBy[site]
			faults.Rules = append(faults.Rules, &vcFaultRule{Site: site, Errno: es[r.intn(len(es))], FD: -1, PerMille: cfg.FaultPM / 2})
		}
		vcSetFaults(faults)
		defer vcSetFaults(nil)
	}
	timeout := time.Duration(cfg.TimeoutUs) * time.Microsecond
	type dres struct {
		c       Connection
		err     error
		elapsed time.Duration
		pan     interface{}
	}
	results := make([]dres, cfg.Dials)
	var wg sync.WaitGroup
	var inFlight int32
	// scheduling canary: the longest a 2 ms sleep took while the dials were in flight. A dial that ran
	// into its timeout on a machine that could not run a goroutine for a good part of that time says
	// nothing about netpoll.
	var maxGap int64
	stopCanary := make(chan struct{})
	canaryDone := make(chan struct{})
	go func() {
		defer close(canaryDone)
		for {
			select {
			case <-stopCanary:
				return
			default:
			}
			t0 := time.Now()
			time.Sleep(2 * time.Millisecond)
			if g := int64(time.Since(t0)); g > atomic.LoadInt64(&maxGap) {
				atomic.StoreInt64(&maxGap, g)
			}
		}
	}()
	stopCanaryOnce := func() {
		select {
		case <-stopCanary:
		default:
			close(stopCanary)
			<-canaryDone
		}
	}
	defer stopCanaryOnce()
	for i := 0; i < cfg.Dials; i++ {
		wg.Add(1)
		go func(i int) {
			defer wg.Done()
			defer func() {
				if p := recover(); p != nil {
					results[i].pan = p
				}
			}()
			atomic.AddInt32(&inFlight, 1)
			t0 := time.Now()
			c, err := DialConnection(network, addr, timeout)
			results[i] = dres{c: c, err: err, elapsed: time.Since(t0)}
			atomic.AddInt32(&inFlight, -1)
		}(i)
	}
	done := make(chan struct{})
	go func() { wg.Wait(); close(done) }()
	select {
	case <-done:
	case <-time.After(timeout + 10*time.Second):
		// bounded progress: a dial still not returned long after its deadline
		stacks := vcStacksContaining("DialConnection")
		if vcRunnerProgress(5, 5*time.Second) {
			t.Violate("C14", "dial_stuck", "%d of %d dials to %s (%s) have not returned %v after a %v timeout; runner canary tasks completed meanwhile", atomic.LoadInt32(&inFlight), cfg.Dials, addr, cfg.Target, 10*time.Second, timeout)
			t.P("stuck_stacks", stacks)
		} else {
			t.Inconclusive("dials did not return, canary without progress")
		}
		return
	}
	vcSetPlan(nil)
	vcSetFaults(nil)
	stopCanaryOnce()
	starved := time.Duration(atomic.LoadInt64(&maxGap))
	t.P("longest_2ms_sleep_during_dials", starved.String())
	nfaults := int(faults.Fired())
	// ---- judge every dial
	ok, failed, timeouts, typedNil := 0, 0, 0, 0
	var conns []Connection
	for i, d := range results {
		desc := fmt.Sprintf("dial #%d to %s target (timeout %v)", i, cfg.Target, timeout)
		if d.pan != nil {
			t.Violate("C14", "panic", "%s panicked: %v", desc, d.pan)
			continue
		}
		isNil := vcIsNilConn(d.c)
		if d.c != nil && isNil {
			typedNil++ // an interface holding a nil pointer: counted, treated as "no connection"
		}
		switch {
		case d.err == nil && isNil:
			t.Violate("C14", "neither", "%s returned neither a connection nor an error", desc)
		case d.err != nil && !isNil:
			t.Violate("C14", "both", "%s returned a connection AND the error %v", desc, d.err)
			conns = append(conns, d.c)
		case d.err != nil:
			failed++
			if ne, isNet := d.err.(net.Error); isNet && ne.Timeout() {
				timeouts++
			} else if strings.Contains(d.err.Error(), "i/o timeout") {
				t.Violate("C14", "timeout_not_reported", "%s ended with %q (%T) after %v: a timeout whose error does not report Timeout()", desc, d.err.Error(), d.err, d.elapsed)
			} else if d.elapsed >= timeout && timeout < 100*time.Millisecond && (cfg.Target == "drop") && nfaults == 0 {
				// nothing but the timeout can end a dial to a silently dropping listener
				t.Violate("C14", "timeout_not_reported", "%s failed after %v with %q (%T), which does not report Timeout()", desc, d.elapsed, d.err.Error(), d.err)
			}
			if cfg.Target == "accept" && timeout >= time.Second && nfaults == 0 {
				ne, isNet := d.err.(net.Error)
				switch {
				case !(isNet && ne.Timeout()) || d.elapsed < timeout*9/10:
					// an error other than the timeout, or "timeout" before the time was up: no clock of
					// the harness is involved
					t.Violate("C14", "spurious_failure", "%s failed after %v with %v although the listener accepts and the timeout is generous", desc, d.elapsed, d.err)
				case starved < timeout/10:
					t.Violate("C14", "spurious_failure", "%s failed with %v although the listener accepts and the timeout is generous (the longest 2 ms sleep beside the dials took %v: the machine was not starved)", desc, d.err, starved)
				default:
					t.Inconclusive("%s timed out on a starved machine (a 2 ms sleep took %v)", desc, starved)
				}
			}
		default:
			ok++
			conns = append(conns, d.c)
			if cfg.Target == "refuse" || cfg.Target == "refuse-unix" || cfg.Target == "missing-unix" || cfg.Target == "drop" {
				t.Violate("C14", "spurious_success", "%s succeeded although nobody can accept there", desc)
			}
		}
	}
	// ---- a returned connection is registered with a running poller and usable in both directions
	for i, c := range conns {
		in := vcInner(c)
		if in == nil {
			continue
		}
		if in.operator == nil || in.operator.poll == nil || atomic.LoadInt32(&in.operator.state) == 0 {
			t.Violate("C14", "not_registered", "connection #%d returned by a successful dial is not registered with a poller (operator state %d)", i, atomic.LoadInt32(&in.operator.state))
			continue
		}
		if cfg.Target == "rst" {
			continue // the peer resets at once: usability cannot be asked for
		}
		n := r.rng(1, 3000)
		seed := r.next()
		p := make([]byte, n)
		vfFill(p, seed, 0)
		c.SetReadTimeout(5 * time.Second)
		if _, err := c.Write(p); err != nil {
			t.Violate("C14", "unusable", "connection #%d from a successful dial cannot send: %v", i, err)
			continue
		}
		q, err := c.Reader().Next(n)
		if err != nil {
			t.Violate("C14", "unusable", "connection #%d from a successful dial did not receive its %d byte echo: %v", i, n, err)
			continue
		}
		if k := vfCheck(q, seed, 0); k >= 0 {
			t.Violate("C14", "unusable", "connection #%d: echo differs at byte %d", i, k)
		}
		c.Reader().Release()
	}
	for _, c := range conns {
		if !vcIsNilConn(c) {
			c.Close()
		}
	}
	// ---- nothing left behind: descriptors and poller registrations
	var diff []string
	for dl := time.Now().Add(3 * time.Second); ; {
		diff = vcFDDiff(before, vcOpenFDs())
		if len(diff) == 0 || time.Now().After(dl) {
			break
		}
		time.Sleep(2 * time.Millisecond)
	}
	if len(diff) > 0 {
		t.Violate("C14", "descriptor_leak", "after %d dials (%d ok, %d failed) and closing every returned connection the process holds %d extra descriptor(s): %v", cfg.Dials, ok, failed, len(diff), diff)
	}
	allocs, frees := 0, 0
	for dl := time.Now().Add(2 * time.Second); ; {
		allocs, frees = 0, 0
		audit.mu.Lock()
		for _, e := range audit.ops {
			switch int(e.Point) {
			case vpOpAlloc:
				allocs++
			case vpOpFreeable:
				frees++
			}
		}
		audit.mu.Unlock()
		if allocs == frees || time.Now().After(dl) {
			break
		}
		time.Sleep(2 * time.Millisecond)
	}
	if allocs != frees {
		t.Violate("C14", "registration_leak", "poller slots: %d allocated, %d released after all dials ended and every connection was closed", allocs, frees)
	}
	t.Stat("dials", cfg.Dials)
	t.Stat("dial_ok", ok)
	t.Stat("dial_failed", failed)
	t.Stat("dial_timeout_errors", timeouts)
	t.Stat("typed_nil_connection_with_error", typedNil)
	t.Stat("slots_allocated", allocs)
	if faults != nil {
		t.Stat("faults_injected", nfaults)
		for _, ru := range faults.Rules {
			if ru.fired > 0 {
				t.Stat("faults@"+vcFaultSiteNames[ru.Site], int(ru.fired))
			}
		}
	}
	if t.Plan != nil && t.Plan.Mode == vcModePause {
		t.Stat("pause_pairs_attempted", 1)
		if t.Plan.Realised() {
			t.Stat("pause_pairs_realised", 1)
		}
	}
	t.Nontrivial = allocs > 0 // the dial reached the poller wait
	cls := "mix"
	switch {
	case ok == cfg.Dials:
		cls = "ok"
	case failed == cfg.Dials && timeouts == failed:
		cls = "timeout"
	case failed == cfg.Dials:
		cls = "fail"
	}
	t.Sig = fmt.Sprintf("%s|n=%d|to=%d|%s|real=%v|faults=%v", cfg.Target, vcMinInt(cfg.Dials, 17)/4, cfg.TimeoutUs, cls, t.Plan.Realised(), nfaults > 0)
}

// vcRunC14Storm: refused dials towards closed ports of the kernel's ephemeral range. About
// one in 10^4 of them the kernel picks the destination port as source port and the socket
// connects to itself (TCP simultaneous open); dialTCP then drops that socket and dials
// again. The redial path is reached only this way, so the storm is what exercises "a failed
// dial leaves no descriptor behind" for it. The number of redials seen is reported; the
// descriptor census is the oracle.
func vcRunC14Storm(t *vcTrial, total, workers int) { vcRunDialStorm(t, "C14", total, workers) }

// vcRunDialStorm is the storm with the violations booked on prop (C14: a failed dial leaves
// nothing behind; C15: descriptors of failed dials are closed).
func vcRunDialStorm(t *vcTrial, prop string, total, workers int) {
	t.P("variant", "refused-dial-storm")
	t.P("dials", total)
	t.P("workers", workers)
	lo, hi := 32768, 60999
	if b, err := ioutil.ReadFile("/proc/sys/net/ipv4/ip_local_port_range"); err == nil {
		fmt.Sscanf(string(b), "%d %d", &lo, &hi)
	}
	var sockets int64
	vcAuditPtr.Store((*vcAudit)(nil))
	vcFDCallback.Store(func(kind int, owner uintptr, fd int) {
		if kind == vfdConn && owner != 0 {
			atomic.AddInt64(&sockets, 1)
		}
	})
	vcPointCallback.Store(func(id int, obj uintptr, arg int) {})
	defer vcFDCallback.Store(func(kind int, owner uintptr, fd int) {})
	vcSetPlan(nil)
	before := vcOpenFDs()
	var okDials, failed, both, neither, pans int64
	var firstBad atomic.Value
	var wg sync.WaitGroup
	for w := 0; w < workers; w++ {
		wg.Add(1)
		rr := vfNewRng(t.R.next())
		go func() {
			defer wg.Done()
			defer func() {
				if p := recover(); p != nil {
					atomic.AddInt64(&pans, 1)
					firstBad.Store(fmt.Sprintf("panic: %v", p))
				}
			}()
			for i := 0; i < total/workers; i++ {
				addr := fmt.Sprintf("127.0.0.1:%d", rr.rng(lo, hi))
				c, err := DialConnection("tcp", addr, time.Second)
				isNil := vcIsNilConn(c)
				switch {
				case err == nil && isNil:
					atomic.AddInt64(&neither, 1)
				case err != nil && !isNil:
					atomic.AddInt64(&both, 1)
					c.Close()
				case err != nil:
					atomic.AddInt64(&failed, 1)
				default:
					// somebody else's listener, or a self-connect that survived both redials
					atomic.AddInt64(&okDials, 1)
					c.Close()
				}
			}
		}()
	}
	done := make(chan struct{})
	go func() { wg.Wait(); close(done) }()
	select {
	case <-done:
	case <-time.After(5 * time.Minute):
		if vcRunnerProgress(5, 5*time.Second) {
			t.Violate(prop, "dial_stuck", "a storm of %d refused dials (1 s timeout each) has not finished after 5 minutes; %d failed, %d ok so far", total, atomic.LoadInt64(&failed), atomic.LoadInt64(&okDials))
		} else {
			t.Inconclusive("storm did not finish, canary without progress")
		}
		return
	}
	if pans > 0 {
		t.Violate(prop, "panic", "a dial panicked: %v", firstBad.Load())
	}
	if both > 0 {
		t.Violate(prop, "both", "%d of %d dials returned a connection AND an error", both, total)
	}
	if neither > 0 {
		t.Violate(prop, "neither", "%d of %d dials returned neither a connection nor an error", neither, total)
	}
	var diff []string
	for dl := time.Now().Add(3 * time.Second); ; {
		diff = vcFDDiff(before, vcOpenFDs())
		if len(diff) == 0 || time.Now().After(dl) {
			break
		}
		time.Sleep(2 * time.Millisecond)
	}
	dials := okDials + failed + both + neither
	redials := atomic.LoadInt64(&sockets) - dials
	if len(diff) > 0 {
		t.Violate(prop, "descriptor_leak", "after %d dials to closed ports (%d failed, %d ok and closed, %d sockets created, i.e. %d redials after a self-connect or EADDRNOTAVAIL) the process holds %d extra descriptor(s): %v", dials, failed, okDials, atomic.LoadInt64(&sockets), redials, len(diff), diff)
	}
	t.Stat("dials", int(dials))
	t.Stat("dial_ok", int(okDials))
	t.Stat("dial_failed", int(failed))
	t.Stat("storm_dials", int(dials))
	t.Stat("storm_redials_after_self_connect", int(redials))
	t.Nontrivial = redials > 0
	t.Sig = fmt.Sprintf("storm|redials=%v", redials > 0)
}

// ------------------------------------------------------------------ multi-address dials

// vc14DNS answers A queries with the given addresses (DNS over the stream framing the Go
// resolver uses on a net.Conn that is not a PacketConn) and everything else with an empty answer.
func vc14DNS(conn net.Conn, addrs []net.IP) {
	defer conn.Close()
	for {
		var l [2]byte
		if _, err := io.ReadFull(conn, l[:]); err != nil {
			return
		}
		q := make([]byte, int(l[0])<<8|int(l[1]))
		if _, err := io.ReadFull(conn, q); err != nil || len(q) < 17 {
			return
		}
		i := 12
		for i < len(q) && q[i] != 0 {
			i += int(q[i]) + 1
		}
		i++
		if i+4 > len(q) {
			return
		}
		qtype := int(q[i])<<8 | int(q[i+1])
		n := 0
		if qtype == 1 {
			n = len(addrs)
		}
		r := []byte{q[0], q[1], 0x81, 0x80, 0, 1, 0, byte(n), 0, 0, 0, 0}
		r = append(r, q[12:i+4]...)
		for k := 0; k < n; k++ {
			r = append(r, 0xC0, 0x0C, 0, 1, 0, 1, 0, 0, 0, 60, 0, 4)
			r = append(r, addrs[k].To4()...)
		}
		out := append([]byte{byte(len(r) >> 8), byte(len(r))}, r...)
		if _, err := conn.Write(out); err != nil {
			return
		}
	}
}

// vcRunC14Multi: a host name with 2-3 addresses, each refusing, accepting or silently dropping on
// the same port. The dial walks the addresses under one timeout: it succeeds iff an accepting
// address comes before the first dropping one; it fails fast with a non-timeout error when every
// address refuses; it ends at the timeout, with an error reporting Timeout(), when a dropping
// address is reached first. Nothing may be left behind in any case.
func vcRunC14Multi(t *vcTrial) {
	r := t.R
	t.P("variant", "multi-address")
	naddr := r.rng(2, 3)
	var ips []net.IP
	for i := 0; i < naddr; i++ {
		ips = append(ips, net.IPv4(127, 0, 0, byte(10+i)))
	}
	old := net.DefaultResolver
	defer func() { net.DefaultResolver = old }()
	net.DefaultResolver = &net.Resolver{PreferGo: true, Dial: func(ctx context.Context, network, address string) (net.Conn, error) {
		c, s := net.Pipe()
		go vc14DNS(s, ips)
		return c, nil
	}}
	host := fmt.Sprintf("verif-c14-%d.test.", atomic.AddUint64(&vcSockSeq, 1))
	res, err := net.DefaultResolver.LookupIPAddr(context.Background(), host)
	if err != nil || len(res) != naddr {
		t.Inconclusive("fake resolver: %v %v", res, err)
		return
	}
	roles := make([]string, naddr)
	for i := range roles {
		roles[i] = []string{"refuse", "refuse", "accept", "drop"}[r.intn(4)]
	}
	t.P("roles_in_dial_order", roles)
	var cleanup []func()
	defer func() {
		for i := len(cleanup) - 1; i >= 0; i-- {
			cleanup[i]()
		}
	}()
	// one port for all addresses: take it from the first socket that needs one
	port := 0
	bind := func(ip net.IP, backlog int) (int, bool) {
		fd, err := syscall.Socket(syscall.AF_INET, syscall.SOCK_STREAM, 0)
		if err != nil {
			return -1, false
		}
		syscall.SetsockoptInt(fd, syscall.SOL_SOCKET, syscall.SO_REUSEADDR, 1)
		sa := &syscall.SockaddrInet4{Port: port}
		copy(sa.Addr[:], ip.To4())
		if err := syscall.Bind(fd, sa); err != nil {
			syscall.Close(fd)
			return -1, false
		}
		if err := syscall.Listen(fd, backlog); err != nil {
			syscall.Close(fd)
			return -1, false
		}
		if port == 0 {
			lsa, _ := syscall.Getsockname(fd)
			port = lsa.(*syscall.SockaddrInet4).Port
		}
		return fd, true
	}
	if port == 0 {
		// reserve a port number even when every address refuses
		fd, ok := bind(net.IPv4(127, 0, 0, 99), 1)
		if !ok {
			t.Inconclusive("bind")
			return
		}
		syscall.Close(fd)
	}
	for i, role := range roles {
		ip := res[i].IP
		switch role {
		case "accept":
			fd, ok := bind(ip, 64)
			if !ok {
				t.Inconclusive("bind accept")
				return
			}
			f := os.NewFile(uintptr(fd), "c14-accept")
			ln, err := net.FileListener(f)
			f.Close()
			if err != nil {
				t.Inconclusive("listener: %v", err)
				return
			}
			cleanup = append(cleanup, func() { ln.Close() })
			go func() {
				for {
					c, err := ln.Accept()
					if err != nil {
						return
					}
					go func(c net.Conn) { defer c.Close(); io.Copy(c, c) }(c)
				}
			}()
		case "drop":
			fd, ok := bind(ip, 0)
			if !ok {
				t.Inconclusive("bind drop")
				return
			}
			cleanup = append(cleanup, func() { syscall.Close(fd) })
			held := 0
			for k := 0; k < 3; k++ {
				c, err := net.DialTimeout("tcp", fmt.Sprintf("%s:%d", ip, port), 200*time.Millisecond)
				if err != nil {
					break
				}
				held++
				cc := c
				cleanup = append(cleanup, func() { cc.Close() })
			}
			if held == 0 {
				t.Inconclusive("the accept queue of the dropping address could not be saturated")
				return
			}
		}
	}
	want := "refused"
	for _, role := range roles {
		if role == "accept" {
			want = "ok"
			break
		}
		if role == "drop" {
			want = "timeout"
			break
		}
	}
	timeout := time.Duration([]int{20, 60, 150}[r.intn(3)]) * time.Millisecond
	if want == "ok" {
		timeout = 2 * time.Second
	}
	time.Sleep(2 * time.Millisecond)
	audit := vcStartAudit()
	before := vcOpenFDs()
	stopCanary := vcSchedCanary()
	t0 := time.Now()
	dmark := vcTraceMark()
	c, derr := DialConnection("tcp", fmt.Sprintf("%s:%d", host, port), timeout)
	el := time.Since(t0)
	starved := stopCanary()
	isNil := vcIsNilConn(c)
	desc := fmt.Sprintf("dial of a name with addresses %v (timeout %v)", roles, timeout)
	switch {
	case derr == nil && isNil:
		t.Violate("C14", "neither", "%s returned neither a connection nor an error", desc)
	case derr != nil && !isNil:
		t.Violate("C14", "both", "%s returned a connection AND the error %v", desc, derr)
		c.Close()
	case derr == nil:
		if want != "ok" {
			t.Violate("C14", "spurious_success", "%s succeeded although no address accepts before one that drops", desc)
		} else {
			p := make([]byte, 100)
			vfFill(p, 7, 0)
			c.SetReadTimeout(5 * time.Second)
			if _, err := c.Write(p); err != nil {
				t.Violate("C14", "unusable", "%s: the returned connection cannot send: %v", desc, err)
			} else if q, err := c.Reader().Next(100); err != nil || vfCheck(q, 7, 0) >= 0 {
				t.Violate("C14", "unusable", "%s: the returned connection did not echo: %v", desc, err)
			}
		}
		c.Close()
	default:
		ne, isNet := derr.(net.Error)
		isTO := isNet && ne.Timeout()
		switch want {
		case "ok":
			if isTO && el >= timeout*9/10 && starved >= timeout/10 {
				t.Inconclusive("%s timed out on a starved machine (a 2 ms sleep took %v)", desc, starved)
				break
			}
			t.Violate("C14", "spurious_failure", "%s failed with %v after %v although an accepting address follows only refusing ones (the longest 2 ms sleep beside the dial took %v)", desc, derr, el, starved)
		case "timeout":
			// only a connect that was actually waiting when the deadline passed (hook DialCtxDone) must
			// report Timeout(); on a slow machine the deadline can pass while an earlier, refusing
			// address is still being handled - then that address's own error is what the dial returns
			waited := vcSeenSince(dmark, vpDialCtxDone, 0)
			if !isTO && waited {
				t.Violate("C14", "timeout_not_reported", "%s ended after %v with %q (%T): the timeout expired while the connect to a silently dropping address was waiting (DialCtxDone in the trace), but the error does not report Timeout()", desc, el, derr.Error(), derr)
			} else if !isTO {
				t.Stat("deadline_passed_between_attempts", 1)
			}
		case "refused":
			if isTO && el < timeout {
				t.Violate("C14", "early_timeout", "%s reported a timeout after %v", desc, el)
			}
		}
	}
	var diff []string
	for dl := time.Now().Add(3 * time.Second); ; {
		diff = vcFDDiff(before, vcOpenFDs())
		if len(diff) == 0 || time.Now().After(dl) {
			break
		}
		time.Sleep(2 * time.Millisecond)
	}
	if len(diff) > 0 {
		t.Violate("C14", "descriptor_leak", "after the %s the process holds %d extra descriptor(s): %v", desc, len(diff), diff)
	}
	allocs, frees := 0, 0
	for dl := time.Now().Add(2 * time.Second); ; {
		allocs, frees = 0, 0
		audit.mu.Lock()
		for _, e := range audit.ops {
			switch int(e.Point) {
			case vpOpAlloc:
				allocs++
			case vpOpFreeable:
				frees++
			}
		}
		audit.mu.Unlock()
		if allocs == frees || time.Now().After(dl) {
			break
		}
		time.Sleep(2 * time.Millisecond)
	}
	if allocs != frees {
		t.Violate("C14", "registration_leak", "poller slots after the %s: %d allocated, %d released", desc, allocs, frees)
	}
	t.Stat("multi_address_dials", 1)
	t.Stat("dials", 1)
	t.Nontrivial = true
	t.Sig = fmt.Sprintf("multi|%v|%s", roles, want)
}

// vcRunC14PersistentFault: connect(2) keeps failing the same way for as long as the dial tries
// (EADDRNOTAVAIL: no local port left towards the target; ENETUNREACH; EACCES ...). Whatever
// retries the dial path has, the call must come back with an error within its timeout plus slack.
func vcRunC14PersistentFault(t *vcTrial) {
	r := t.R
	t.P("variant", "connect fails persistently")
	ln, err := net.Listen("tcp", "127.0.0.1:0")
	if err != nil {
		t.Inconclusive("listen: %v", err)
		return
	}
	defer ln.Close()
	for _, errno := range []syscall.Errno{syscall.EADDRNOTAVAIL, syscall.ENETUNREACH, syscall.ECONNREFUSED, syscall.EADDRNOTAVAIL} {
		if t.Violated() {
			return
		}
		site := []int{vfltConnect, vfltConnect, vfltSocket}[r.intn(3)]
		if errno != syscall.EADDRNOTAVAIL {
			site = vfltConnect
		}
		fp := &vcFaultPlan{Rules: []*vcFaultRule{{Site: site, Errno: errno, FD: -1}}}
		if site == vfltSocket {
			fp.Rules[0].Errno = syscall.EMFILE
		}
		before := vcOpenFDs()
		vcSetFaults(fp)
		timeout := 300 * time.Millisecond
		type res struct {
			c   Connection
			err error
		}
		ch := make(chan res, 1)
		t0 := time.Now()
		go func() {
			c, err := DialConnection("tcp", ln.Addr().String(), timeout)
			ch <- res{c, err}
		}()
		select {
		case x := <-ch:
			vcSetFaults(nil)
			if x.err == nil || !vcIsNilConn(x.c) {
				t.Violate("C14", "spurious_success", "a dial whose every %s fails with %v returned (%v, %v)", vcFaultSiteNames[site], fp.Rules[0].Errno, x.c, x.err)
				if !vcIsNilConn(x.c) {
					x.c.Close()
				}
				return
			}
			t.Stat("persistent_fault_dials", 1)
			t.Stat("persistent_fault_attempts", int(fp.Fired()))
		case <-time.After(timeout + 10*time.Second):
			calls := fp.Fired()
			time.Sleep(200 * time.Millisecond)
			calls2 := fp.Fired()
			vcSetFaults(nil)
			if vcRunnerProgress(5, 5*time.Second) {
				t.Violate("C14", "dial_stuck", "a dial (timeout %v) whose every %s fails with %v has not returned %v after the call: the failing call was made %d times so far (%d more in the last 200 ms) - the dial retries without a bound and without looking at its timeout", timeout, vcFaultSiteNames[site], fp.Rules[0].Errno, time.Since(t0).Round(time.Millisecond), calls, calls2-calls)
			} else {
				t.Inconclusive("dial did not return, canary without progress")
			}
			return
		}
		var diff []string
		for dl := time.Now().Add(3 * time.Second); ; {
			diff = vcFDDiff(before, vcOpenFDs())
			if len(diff) == 0 || time.Now().After(dl) {
				break
			}
			time.Sleep(2 * time.Millisecond)
		}
		if len(diff) > 0 {
			t.Violate("C14", "descriptor_leak", "a dial whose every %s fails with %v left %d descriptor(s) behind: %v", vcFaultSiteNames[site], fp.Rules[0].Errno, len(diff), diff)
			return
		}
	}
	// addresses that do not fit the socket family (only reachable through the exported DialTCP):
	// an error, and nothing left behind
	before := vcOpenFDs()
	mism := 0
	for i := 0; i < 20; i++ {
		var c *TCPConnection
		var err error
		if i%2 == 0 {
			c, err = DialTCP(context.Background(), "tcp4", nil, &TCPAddr{TCPAddr: net.TCPAddr{IP: net.ParseIP("::1"), Port: 9}})
		} else {
			c, err = DialTCP(context.Background(), "tcp4", &TCPAddr{TCPAddr: net.TCPAddr{IP: net.ParseIP("::1")}}, &TCPAddr{TCPAddr: net.TCPAddr{IP: net.IPv4(127, 0, 0, 1), Port: 9}})
		}
		if err == nil && c != nil {
			c.Close()
		} else {
			mism++
		}
	}
	var diff []string
	for dl := time.Now().Add(2 * time.Second); ; {
		diff = vcFDDiff(before, vcOpenFDs())
		if len(diff) == 0 || time.Now().After(dl) {
			break
		}
		time.Sleep(2 * time.Millisecond)
	}
	if len(diff) > 0 {
		t.Violate("C14", "descriptor_leak", "20 DialTCP calls with an address that does not fit the socket family (%d failed) left %d descriptor(s) behind: %v", mism, len(diff), diff)
		return
	}
	t.Stat("family_mismatch_dials", 20)
	t.Nontrivial, t.Sig = true, "persistent-fault"
}

// vcSchedCanary measures how long 2 ms sleeps really take until the returned function is called; it
// returns the longest one. A wall-clock timeout observed while the machine could not run a goroutine
// for a good part of it says nothing about the code under test.
func vcSchedCanary() (stop func() time.Duration) {
	var maxGap int64
	quit := make(chan struct{})
	done := make(chan struct{})
	go func() {
		defer close(done)
		for {
			select {
			case <-quit:
				return
			default:
			}
			t0 := time.Now()
			time.Sleep(2 * time.Millisecond)
			if g := int64(time.Since(t0)); g > atomic.LoadInt64(&maxGap) {
				atomic.StoreInt64(&maxGap, g)
			}
		}
	}()
	return func() time.Duration {
		close(quit)
		<-done
		return time.Duration(atomic.LoadInt64(&maxGap))
	}
}
