// C19: no data races outside the documented buffer exemption. Workloads for the -race build.
// Everything here stays inside the concurrency contract (one reader, one writer, any number
// of closers per connection; setters before use) and uses no trace/pause machinery: the
// handler behind the hooks is either absent or the synchronisation-free jitter handler below.
package netpoll

import (
	"io"
	"context"
	"fmt"
	"net"
	"runtime"
	"sync"
	"sync/atomic"
	"syscall"
	"time"
)

func init() { vcScenarios["C19"] = vcScenC19 }

var (
	vrHits [256]uint64 // plain, deliberately unsynchronised (approximate coverage under -race)
	vrSeed uint64
	vrPM   uint64
)

// vrJitter is the hook handler of the race runs: no atomics, no locks, no channels - it must not
// add happens-before edges that could hide a race in netpoll.
//
//go:norace
func vrJitter(id int, obj interface{}, arg int) {
	i := id & 255
	vrHits[i]++
	h := vfMix2(vrSeed^uint64(i)<<32, vrHits[i])
	if h%1000 < vrPM {
		if (h>>12)%4 < 3 {
			runtime.Gosched()
		} else {
			time.Sleep(time.Duration((h>>20)%200) * time.Microsecond)
		}
	}
}

// vrEmfile makes netpoll's accept wrapper report EMFILE while it is set. Plain variable, read
// in a //go:norace function: the fault switch must not add happens-before edges either.
var vrEmfile bool

//go:norace
func vrFault(site, fd int) syscall.Errno {
	if site == vfltAccept && vrEmfile {
		return syscall.EMFILE
	}
	return 0
}

//go:norace
func vrSetEmfile(on bool) { vrEmfile = on }

func vrInstall(mode string, seed uint64) {
	verifFaultHandler.Store(func(site, fd int) syscall.Errno { return vrFault(site, fd) })
	switch mode {
	case "jitter":
		vrSeed, vrPM = seed, 150
		verifPointHandler.Store(func(id int, obj interface{}, arg int) { vrJitter(id, obj, arg) })
	default:
		// hooks compiled in, no handler installed
	}
}

//go:norace
func vrHitsSnapshot() map[string]uint64 {
	out := map[string]uint64{}
	for i := 1; i < vpCount && i < len(vrHits); i++ {
		if vrHits[i] > 0 {
			out[vcPointName(i)] = vrHits[i]
		}
	}
	return out
}

func vcScenC19(t *vcTrial) {
	r := t.R
	w := []string{"echo", "echo", "closers", "closers", "closers", "dials", "bigwrites", "pool", "slices", "shutdown", "lifecycle", "lifecycle", "manyconns", "emfile"}[r.intn(14)]
	t.P("workload", w)
	switch w {
	case "echo":
		vrEcho(t, r.rng(1, 8), r.rng(1, 20), false)
	case "shutdown":
		vrEcho(t, r.rng(2, 12), r.rng(1, 5), true)
	case "closers":
		vrClosers(t)
	case "dials":
		vrDials(t)
	case "bigwrites":
		vrBigWrites(t)
	case "pool":
		vrPool(t)
	case "slices":
		vrSlices(t)
	case "lifecycle":
		vrLifecycle(t)
	case "manyconns":
		vrManyConns(t)
	case "emfile":
		vrEmfileThenShutdown(t)
	}
	t.Nontrivial = true
	t.Sig = w + "|" + vfEnvStr("VERIF_RACE_MODE", "off")
	t.Stat("workload_"+w, 1)
}

func vrEchoServer(t *vcTrial, network string) (EventLoop, Listener, *sync.WaitGroup, error) {
	addr := "127.0.0.1:0"
	if network == "unix" {
		addr = fmt.Sprintf("%s/r%d.sock", vcTempDir(), atomic.AddUint64(&vcSockSeq, 1))
	}
	ln, err := CreateListener(network, addr)
	if err != nil {
		return nil, nil, nil, err
	}
	var serving sync.WaitGroup
	evl, err := NewEventLoop(func(ctx context.Context, c Connection) error {
		n := c.Reader().Len()
		p, err := c.Reader().Next(n)
		if err != nil {
			return nil
		}
		out, err := c.Writer().Malloc(n)
		if err == nil {
			copy(out, p)
		}
		c.Reader().Release()
		c.Writer().Flush()
		return nil
	},
		WithOnPrepare(func(c Connection) context.Context {
			c.AddCloseCallback(func(Connection) error { return nil })
			return context.Background()
		}),
		WithOnConnect(func(ctx context.Context, c Connection) context.Context { return ctx }),
		WithOnDisconnect(func(ctx context.Context, c Connection) {}),
		WithReadTimeout(5*time.Second), WithWriteTimeout(5*time.Second), WithIdleTimeout(time.Minute))
	if err != nil {
		ln.Close()
		return nil, nil, nil, err
	}
	serving.Add(1)
	go func() { defer serving.Done(); evl.Serve(ln) }()
	if vc13ServerOf(evl) == nil {
		return nil, nil, nil, fmt.Errorf("Serve did not start")
	}
	return evl, ln, &serving, nil
}

func vrEcho(t *vcTrial, clients, msgs int, shutdownEarly bool) {
	r := t.R
	network := []string{"tcp", "unix"}[r.intn(2)]
	evl, ln, serving, err := vrEchoServer(t, network)
	if err != nil {
		t.Inconclusive("server: %v", err)
		return
	}
	seeds := make([]uint64, clients)
	for i := range seeds {
		seeds[i] = r.next()
	}
	var wg sync.WaitGroup
	var bad int32
	for i := 0; i < clients; i++ {
		wg.Add(1)
		go func(i int) {
			defer wg.Done()
			cr := vfNewRng(seeds[i])
			c, err := DialConnection(network, ln.Addr().String(), 5*time.Second)
			if err != nil {
				return
			}
			c.SetReadTimeout(5 * time.Second)
			pos := uint64(0)
			for m := 0; m < msgs; m++ {
				n := cr.rng(1, 20000)
				buf, err := c.Writer().Malloc(n)
				if err != nil {
					break
				}
				vfFill(buf, seeds[i], pos)
				if err := c.Writer().Flush(); err != nil {
					break
				}
				p, err := c.Reader().Next(n)
				if err != nil {
					break
				}
				if vfCheck(p, seeds[i], pos) >= 0 {
					atomic.StoreInt32(&bad, 1)
				}
				c.Reader().Release()
				pos += uint64(n)
			}
			if cr.chance(50) {
				c.Close()
			} else {
				// several closers
				var cw sync.WaitGroup
				for k := 0; k < 3; k++ {
					cw.Add(1)
					go func() { defer cw.Done(); c.Close() }()
				}
				cw.Wait()
			}
		}(i)
	}
	if shutdownEarly {
		time.Sleep(time.Duration(r.intn(3000)) * time.Microsecond)
	} else {
		wg.Wait()
	}
	ctx, cancel := context.WithTimeout(context.Background(), 3*time.Second)
	evl.Shutdown(ctx)
	cancel()
	wg.Wait()
	serving.Wait()
	if atomic.LoadInt32(&bad) != 0 {
		t.Violate("C04", "wrong_bytes", "echo stream corrupted in the race workload")
	}
}

func vrClosers(t *vcTrial) {
	r := t.R
	ln, err := net.Listen("tcp", "127.0.0.1:0")
	if err != nil {
		t.Inconclusive("listen: %v", err)
		return
	}
	defer ln.Close()
	acc := make(chan net.Conn, 1)
	go func() {
		c, err := ln.Accept()
		if err == nil {
			acc <- c
		}
	}()
	c, err := DialConnection("tcp", ln.Addr().String(), 5*time.Second)
	if err != nil {
		t.Inconclusive("dial: %v", err)
		return
	}
	var peer net.Conn
	select {
	case peer = <-acc:
	case <-time.After(5 * time.Second):
		c.Close()
		t.Inconclusive("accept timeout")
		return
	}
	c.AddCloseCallback(func(Connection) error { return nil })
	c.SetReadTimeout(time.Duration(r.rng(1, 20)) * time.Millisecond)
	c.SetWriteTimeout(time.Duration(r.rng(1, 20)) * time.Millisecond)
	if r.chance(80) {
		// a small send buffer: the writer's sendmsg comes back short, the flush goes through the
		// poller (Control(PollR2RW), waitFlush) and is in there when the closers arrive
		vcSetBuf(c.(Conn).Fd(), 4<<10, 0)
	}
	var wg sync.WaitGroup
	wg.Add(1)
	go func() { // the one reader
		defer wg.Done()
		defer func() { recover() }() // D21: a reader racing Close may hit the recycled buffer; C07's finding, not a data race report
		for i := 0; i < 5; i++ {
			if _, err := c.Reader().Next(100); err != nil && !c.IsActive() {
				return
			}
			c.Reader().Release()
		}
	}()
	wg.Add(1)
	go func() { // somebody registering close callbacks while others close (a pool attaching its hook)
		defer wg.Done()
		for i := 0; i < 6; i++ {
			c.AddCloseCallback(func(Connection) error { return nil })
			runtime.Gosched()
		}
	}()
	wg.Add(1)
	go func() { // the one writer
		defer wg.Done()
		defer func() { recover() }() // D22: a writer racing Close may hit the recycled buffer; C08's finding, not a data race report
		for i := 0; i < 20; i++ {
			b, err := c.Writer().Malloc(64 << 10)
			if err != nil {
				return
			}
			b[0] = 1
			if err := c.Writer().Flush(); err != nil {
				return
			}
		}
	}()
	peerWait, peerRST := time.Duration(r.intn(5000))*time.Microsecond, r.chance(50) // r is not shared with goroutines
	wg.Add(1)
	go func() { // the peer: sends a little, reads a little, then goes away
		defer wg.Done()
		peer.Write(make([]byte, 250))
		buf := make([]byte, 32<<10)
		peer.SetReadDeadline(time.Now().Add(20 * time.Millisecond))
		peer.Read(buf)
		time.Sleep(peerWait)
		if !peerRST {
			peer.Close()
		} else {
			vcRST(peer)
		}
	}()
	time.Sleep(time.Duration(r.intn(5000)) * time.Microsecond)
	for k := 0; k < r.rng(1, 5); k++ { // any number of closers
		wg.Add(1)
		go func() { defer wg.Done(); c.Close() }()
	}
	wg.Wait()
	c.Close()
	peer.Close()
}

func vrDials(t *vcTrial) {
	r := t.R
	ln, err := net.Listen("tcp", "127.0.0.1:0")
	if err != nil {
		t.Inconclusive("listen: %v", err)
		return
	}
	go func() {
		for {
			c, err := ln.Accept()
			if err != nil {
				return
			}
			c.Close()
		}
	}()
	dead, _ := net.Listen("tcp", "127.0.0.1:0")
	deadAddr := dead.Addr().String()
	dead.Close()
	var wg sync.WaitGroup
	for i := 0; i < r.rng(2, 24); i++ {
		wg.Add(1)
		addr := ln.Addr().String()
		if r.chance(30) {
			addr = deadAddr
		}
		to := time.Duration([]int{1, 50, 2000, 200000}[r.intn(4)]) * time.Microsecond
		go func() {
			defer wg.Done()
			c, err := DialConnection("tcp", addr, to)
			if err == nil {
				c.Close()
			}
		}()
	}
	wg.Wait()
	ln.Close()
}

func vrBigWrites(t *vcTrial) {
	r := t.R
	fds, err := syscall.Socketpair(syscall.AF_UNIX, syscall.SOCK_STREAM, 0)
	if err != nil {
		t.Inconclusive("socketpair: %v", err)
		return
	}
	a, err := NewFDConnection(fds[0])
	if err != nil {
		t.Inconclusive("fdconn: %v", err)
		return
	}
	b, err := NewFDConnection(fds[1])
	if err != nil {
		a.Close()
		t.Inconclusive("fdconn: %v", err)
		return
	}
	vcSetBuf(fds[0], 4096, 4096)
	vcSetBuf(fds[1], 4096, 4096)
	total := r.rng(100<<10, 2<<20)
	seed := r.next()
	var wg sync.WaitGroup
	wg.Add(2)
	go func() {
		defer wg.Done()
		w := &vcStreamWriter{C: a, Seed: seed, R: vfNewRng(seed ^ 1)}
		for w.Pos < uint64(total) && w.Err == nil {
			w.Step(int(uint64(total)-w.Pos), 40)
		}
		w.Flush()
		a.Close()
	}()
	go func() {
		defer wg.Done()
		b.SetReadTimeout(10 * time.Second)
		rd := &vcStreamReader{Rd: b.Reader(), Seed: seed, Total: uint64(total), R: vfNewRng(seed ^ 2)}
		for rd.Pos < uint64(total) {
			if _, err := rd.Step(int(uint64(total) - rd.Pos)); err != nil {
				break
			}
		}
		if rd.Bad != "" {
			t.Violate("C04", "wrong_bytes", "race workload: %s", rd.Bad)
		}
		b.Close()
	}()
	wg.Wait()
}

func vrPool(t *vcTrial) {
	r := t.R
	m := newManager(r.rng(1, 6))
	for phase := 0; phase < r.rng(1, 3); phase++ {
		var wg sync.WaitGroup
		for g := 0; g < r.rng(1, 32); g++ {
			wg.Add(1)
			go func() {
				defer wg.Done()
				for i := 0; i < 20; i++ {
					m.Pick()
				}
			}()
		}
		wg.Wait()
		m.SetNumLoops(r.rng(1, 6)) // between phases: no Pick in flight
	}
	m.Pick()
	m.Close()
}

func vrSlices(t *vcTrial) {
	r := t.R
	lb := NewLinkBuffer(r.rng(0, 4096))
	total := 0
	for i := 0; i < r.rng(1, 20); i++ {
		n := r.rng(1, 9000)
		b, _ := lb.Malloc(n)
		vfFill(b, 7, uint64(total))
		total += n
	}
	lb.Flush()
	var wg sync.WaitGroup
	pos := 0
	for pos < total {
		n := r.rng(1, total-pos)
		sr, err := lb.Slice(n)
		if err != nil {
			break
		}
		p0 := pos
		pos += n
		wg.Add(1)
		go func() { // Slice readers are read and released on other goroutines
			defer wg.Done()
			p, err := sr.Next(n)
			if err == nil && vfCheck(p, 7, uint64(p0)) >= 0 {
				t.Violate("C02", "slice_reader_content", "race workload: Slice reader content differs")
			}
			sr.Release()
		}()
		if r.chance(50) {
			lb.Release()
		}
	}
	lb.Release()
	wg.Wait()
	lb.Close()
}

// vrLifecycle: peers that hang up before, while and after OnConnect runs, with OnConnect returning a
// new context and OnDisconnect/OnRequest reading it; everything here is ordinary use of the API.
func vrLifecycle(t *vcTrial) {
	r := t.R
	network := []string{"tcp", "unix"}[r.intn(2)]
	addr := "127.0.0.1:0"
	if network == "unix" {
		addr = fmt.Sprintf("%s/rl%d.sock", vcTempDir(), atomic.AddUint64(&vcSockSeq, 1))
	}
	ln, err := CreateListener(network, addr)
	if err != nil {
		t.Inconclusive("listen: %v", err)
		return
	}
	type key struct{}
	delays := make([]int, 64)
	for i := range delays {
		delays[i] = r.intn(2500)
	}
	var idx int32
	var disconnects, requests int32
	evl, err := NewEventLoop(func(ctx context.Context, c Connection) error {
		_ = ctx.Value(key{})
		atomic.AddInt32(&requests, 1)
		c.Reader().Skip(c.Reader().Len())
		return nil
	},
		WithOnPrepare(func(c Connection) context.Context { return context.Background() }),
		WithOnConnect(func(ctx context.Context, c Connection) context.Context {
			d := delays[int(atomic.AddInt32(&idx, 1))%len(delays)]
			time.Sleep(time.Duration(d) * time.Microsecond)
			return context.WithValue(ctx, key{}, d)
		}),
		WithOnDisconnect(func(ctx context.Context, c Connection) {
			_ = ctx.Value(key{})
			atomic.AddInt32(&disconnects, 1)
		}))
	if err != nil {
		ln.Close()
		t.Inconclusive("eventloop: %v", err)
		return
	}
	var serving sync.WaitGroup
	serving.Add(1)
	go func() { defer serving.Done(); evl.Serve(ln) }()
	if vc13ServerOf(evl) == nil {
		t.Inconclusive("Serve did not start")
		return
	}
	nclients := r.rng(4, 24)
	plan := make([][2]int, nclients)
	for i := range plan {
		plan[i] = [2]int{r.intn(3000), r.intn(2)}
	}
	var wg sync.WaitGroup
	for i := 0; i < nclients; i++ {
		wg.Add(1)
		go func(i int) {
			defer wg.Done()
			c, err := net.DialTimeout(network, ln.Addr().String(), 2*time.Second)
			if err != nil {
				return
			}
			if plan[i][1] == 1 {
				c.Write([]byte("hello"))
			}
			time.Sleep(time.Duration(plan[i][0]) * time.Microsecond)
			c.Close()
		}(i)
	}
	wg.Wait()
	time.Sleep(5 * time.Millisecond)
	ctx, cancel := context.WithTimeout(context.Background(), 2*time.Second)
	evl.Shutdown(ctx)
	cancel()
	serving.Wait()
	t.Stat("lifecycle_clients", nclients)
	t.Stat("lifecycle_disconnects", int(atomic.LoadInt32(&disconnects)))
}

// vrManyConns: more live connections on one poller than one block of its operator cache holds
// (the cache grows in a dialling goroutine while the poller recycles freed slots after a batch).
func vrManyConns(t *vcTrial) {
	r := t.R
	evl, ln, serving, err := vrEchoServer(t, "unix")
	if err != nil {
		t.Inconclusive("server: %v", err)
		return
	}
	n := r.rng(45, 95)
	var conns []Connection
	dial := func() {
		c, err := DialConnection("unix", ln.Addr().String(), 2*time.Second)
		if err == nil {
			conns = append(conns, c)
		}
	}
	for i := 0; i < n; i++ {
		dial()
		if i%9 == 8 && len(conns) > 3 {
			// close one in the middle of the growth and send on another: the poller ends a batch with a
			// freed slot waiting while the next dials make the cache grow
			k := r.intn(len(conns))
			conns[k].Close()
			conns = append(conns[:k], conns[k+1:]...)
			c := conns[r.intn(len(conns))]
			c.Writer().WriteBinary([]byte("ping"))
			c.Writer().Flush()
		}
	}
	for _, c := range conns {
		c.Writer().WriteBinary([]byte("x"))
		c.Writer().Flush()
	}
	time.Sleep(2 * time.Millisecond)
	for _, c := range conns {
		c.Close()
	}
	ctx, cancel := context.WithTimeout(context.Background(), 2*time.Second)
	evl.Shutdown(ctx)
	cancel()
	serving.Wait()
	t.Stat("manyconns_dials", n)
}

// vrEmfileThenShutdown: an EMFILE episode (detach, back-off goroutine, re-registration), ordinary
// traffic afterwards, then Shutdown from the trial's goroutine.
func vrEmfileThenShutdown(t *vcTrial) {
	r := t.R
	evl, ln, serving, err := vrEchoServer(t, []string{"tcp", "unix"}[r.intn(2)])
	if err != nil {
		t.Inconclusive("server: %v", err)
		return
	}
	network := ln.Addr().Network()
	vrSetEmfile(true)
	c1, err1 := net.DialTimeout(network, ln.Addr().String(), 2*time.Second)
	time.Sleep(time.Duration(r.rng(5, 70)) * time.Millisecond) // the retry loop fails a few times
	vrSetEmfile(false)
	echo := func(c net.Conn) {
		c.SetDeadline(time.Now().Add(3 * time.Second))
		c.Write([]byte("hello"))
		io.ReadFull(c, make([]byte, 5))
	}
	if err1 == nil {
		echo(c1)
		c1.Close()
	}
	if c2, err := net.DialTimeout(network, ln.Addr().String(), 2*time.Second); err == nil {
		echo(c2)
		c2.Close()
	}
	time.Sleep(time.Duration(r.rng(1, 20)) * time.Millisecond)
	ctx, cancel := context.WithTimeout(context.Background(), 2*time.Second)
	evl.Shutdown(ctx)
	cancel()
	serving.Wait()
	t.Stat("emfile_shutdown_workloads", 1)
}
