// C18: the poller pool always hands out a running poller of the configured size.
package netpoll

import (
	"fmt"
	"sync"
	"sync/atomic"
	"syscall"
	"time"
)

func init() {
	vcScenarios["C18"] = vcScenC18
	vcDirected["C18"] = []vcScenario{
		func(t *vcTrial) { vcRunC18(t, []int{1}, 64, false) },
		func(t *vcTrial) { vcRunC18(t, []int{4, 2, 7, 1}, 32, true) },
		func(t *vcTrial) { vcRunC18(t, []int{16, 3}, 256, false) },
		vcRunC18GrowthFails,
		vcRunC18GrowthFails,
		func(t *vcTrial) { vcRunC18Even(t, 3, 8, 100000) },
		func(t *vcTrial) { vcRunC18Even(t, 7, 16, 50000) },
	}
}

func vcScenC18(t *vcTrial) {
	r := t.R
	if r.intn(12) == 0 {
		vcRunC18GrowthFails(t)
		return
	}
	if r.intn(15) == 0 {
		vcRunC18Even(t, []int{2, 3, 5, 7}[r.intn(4)], []int{2, 4, 8, 16}[r.intn(4)], 30000)
		return
	}
	n := r.rng(1, 4)
	ks := make([]int, n)
	for i := range ks {
		ks[i] = []int{1, 1, 2, 3, 4, 8, 16}[r.intn(7)]
	}
	vcRunC18(t, ks, []int{1, 2, 8, 64, 256}[r.intn(5)], r.chance(40))
}

// vcProbePoll checks that the loop of poll p is running: a registered descriptor becomes
// readable and its OnRead must fire.
func vcProbePoll(p Poll, d time.Duration) error {
	fds, err := syscall.Socketpair(syscall.AF_UNIX, syscall.SOCK_STREAM, 0)
	if err != nil {
		return nil // cannot probe: not the poller's fault
	}
	defer syscall.Close(fds[0])
	defer syscall.Close(fds[1])
	syscall.SetNonblock(fds[0], true)
	fired := make(chan struct{}, 1)
	op := p.Alloc()
	op.FD = fds[0]
	op.OnRead = func(Poll) error {
		var b [8]byte
		syscall.Read(fds[0], b[:])
		select {
		case fired <- struct{}{}:
		default:
		}
		return nil
	}
	op.OnHup = func(Poll) error { return nil }
	if err := op.Control(PollReadable); err != nil {
		op.Free()
		return fmt.Errorf("registering with the picked poller failed: %v", err)
	}
	syscall.Write(fds[1], []byte{1})
	var res error
	select {
	case <-fired:
	case <-time.After(d):
		res = fmt.Errorf("a descriptor registered with the picked poller became readable but its OnRead did not fire within %v", d)
	}
	op.Control(PollDetach)
	op.Free()
	return res
}

func vcRunC18(t *vcTrial, ks []int, pickers int, random bool) {
	r := t.R
	t.P("loops_sequence", ks)
	t.P("pickers", pickers)
	t.P("random_lb", random)
	audit := vcStartAudit()
	mark := vcTraceMark()
	if r.chance(50) {
		t.Plan = &vcPlan{Mode: vcModeJitter, Seed: r.next(), JitterPM: r.rng(100, 600), MaxSleep: time.Duration(r.rng(1, 300)) * time.Microsecond}
	} else if r.chance(50) {
		t.Plan = &vcPlan{Mode: vcModePause, P: []int{vpPickSlow, vpPickRunDone, vpPollOpened}[r.intn(3)], Q: vpPickSlow, ArgQ: -1, Timeout: time.Duration(r.rng(1, 10)) * time.Millisecond}
	}
	vcSetPlan(t.Plan)
	defer vcSetPlan(nil)
	m := newManager(ks[0])
	mid := vcObjID(m)
	_ = mid
	if random {
		m.SetLoadBalance(Random)
	}
	everSeen := map[Poll]bool{}
	probes := 0
	for phase, k := range ks {
		if phase > 0 {
			// reconfiguration happens while no Pick is in flight; the configuration may be changed
			// several times before the next Pick - the last value is the configured one (also when it
			// equals the size the pool is still running at)
			for n := r.intn(3); n > 0; n-- {
				if err := m.SetNumLoops([]int{1, 2, 3, 5, 8, vcMaxInt(1, len(m.polls)-1), len(m.polls) + 1}[r.intn(7)]); err != nil {
					t.Violate("C18", "setnumloops", "SetNumLoops = %v", err)
					return
				}
				t.Stat("reconfigurations_overwritten", 1)
			}
			if err := m.SetNumLoops(k); err != nil {
				t.Violate("C18", "setnumloops", "SetNumLoops(%d) = %v", k, err)
				return
			}
			if r.chance(30) {
				random = !random
				if random {
					m.SetLoadBalance(Random)
				} else {
					m.SetLoadBalance(RoundRobin)
				}
			}
		}
		// ---- concurrent picks, including the lazily initialising ones
		npicks := vcMaxInt(pickers, k*8)
		per := (npicks + pickers - 1) / pickers
		got := make([][]Poll, pickers)
		var wg sync.WaitGroup
		start := make(chan struct{})
		for g := 0; g < pickers; g++ {
			wg.Add(1)
			go func(g int) {
				defer wg.Done()
				<-start
				for i := 0; i < per; i++ {
					got[g] = append(got[g], m.Pick())
				}
			}(g)
		}
		close(start)
		done := make(chan struct{})
		go func() { wg.Wait(); close(done) }()
		select {
		case <-done:
		case <-time.After(20 * time.Second):
			if vcRunnerProgress(5, 5*time.Second) {
				t.Violate("C18", "pick_stuck", "phase %d (k=%d): %d goroutines calling Pick have not finished after 20s", phase, k, pickers)
				t.P("stuck_stacks", vcStacksContaining("manager).Pick"))
			} else {
				t.Inconclusive("Pick did not return and the canary made no progress")
			}
			return
		}
		counts := map[Poll]int{}
		total := 0
		for _, l := range got {
			for _, p := range l {
				if p == nil {
					t.Violate("C18", "nil_poller", "phase %d (k=%d): Pick returned nil", phase, k)
					return
				}
				counts[p]++
				total++
				everSeen[p] = true
			}
		}
		// ---- every returned poller runs
		for p := range counts {
			if err := vcProbePoll(p, 5*time.Second); err != nil {
				// 5 s is patience, not a verdict: a loop whose exit is in the trace is dead for certain;
				// otherwise the probe is repeated with a minute of patience (a loaded machine is slow)
				exited := vcSeenSince(mark, vpPollExit, vcObjID(p))
				if !exited {
					if err2 := vcProbePoll(p, time.Minute); err2 == nil {
						t.Stat("slow_probes", 1)
						probes++
						continue
					}
				}
				if vcRunnerProgress(5, 5*time.Second) {
					t.Violate("C18", "dead_poller", "phase %d (k=%d): Pick handed out a poller that is not running (its loop's exit is in the trace: %v): %v", phase, k, exited, err)
				} else {
					t.Inconclusive("probe failed and the canary made no progress")
				}
				return
			}
			probes++
		}
		// ---- the pool has exactly k running loops
		if len(m.polls) != k {
			t.Violate("C18", "pool_size", "phase %d: after SetNumLoops(%d) and %d picks the pool holds %d pollers", phase, k, total, len(m.polls))
			return
		}
		if len(counts) > k {
			t.Violate("C18", "pool_size", "phase %d (k=%d): %d distinct pollers were handed out", phase, k, len(counts))
			return
		}
		if !random && len(counts) != k {
			t.Violate("C18", "pool_size", "phase %d (k=%d): round-robin over %d picks handed out %d distinct pollers", phase, k, total, len(counts))
			return
		}
		for _, p := range m.polls {
			if _, ok := counts[p]; !ok && !random {
				t.Violate("C18", "pool_member_unused", "phase %d (k=%d): a pool member was never picked in %d round-robin picks", phase, k, total)
				return
			}
		}
		// ---- round-robin is even: per-poller counts differ by at most one
		if !random {
			lo, hi := total, 0
			for _, c := range counts {
				if c < lo {
					lo = c
				}
				if c > hi {
					hi = c
				}
			}
			if hi-lo > 1 {
				t.Violate("C18", "uneven", "phase %d (k=%d): %d consecutive round-robin picks were spread %v (max-min = %d)", phase, k, total, vc18Counts(counts), hi-lo)
				return
			}
		}
		// ---- surplus pollers of earlier phases are closed: loop exited, descriptors closed
		member := map[Poll]bool{}
		for _, p := range m.polls {
			member[p] = true
		}
		for p := range everSeen {
			if member[p] {
				continue
			}
			dp := p.(*defaultPoll)
			if !vcWaitPoint(mark, vpPollExit, vcObjID(dp), 5*time.Second) {
				if vcRunnerProgress(5, 5*time.Second) {
					t.Violate("C18", "surplus_running", "phase %d (k=%d): a poller dropped from the pool is still running 5s later (its loop never exited)", phase, k)
				} else {
					t.Inconclusive("surplus poller exit not seen, canary without progress")
				}
				return
			}
		}
	}
	// ---- Close: every loop exits and every poller descriptor is closed exactly once
	polls := append([]Poll(nil), m.polls...)
	m.Close()
	for _, p := range polls {
		if !vcWaitPoint(mark, vpPollExit, vcObjID(p.(*defaultPoll)), 5*time.Second) {
			t.Violate("C18", "close_not_exited", "manager.Close: a poller loop has not exited after 5s")
			return
		}
	}
	// the exit hook precedes the two close calls: poll (bounded) until the audit has seen them
	adopt, closed := map[uintptr]int{}, map[uintptr]int{}
	for dl := time.Now().Add(3 * time.Second); ; {
		adopt, closed = map[uintptr]int{}, map[uintptr]int{}
		audit.mu.Lock()
		for _, e := range audit.fds {
			if e.Kind == vfdEpoll || e.Kind == vfdEventfd {
				adopt[e.Owner]++
			}
			if e.Kind == -vfdEpoll || e.Kind == -vfdEventfd {
				closed[e.Owner]++
				if !e.Open {
					t.Violate("C15", "close_of_closed", "poller descriptor %d was closed while not open", e.FD)
				}
			}
		}
		audit.mu.Unlock()
		balanced := true
		for o, n := range adopt {
			if closed[o] != n {
				balanced = false
			}
		}
		if balanced || time.Now().After(dl) {
			break
		}
		time.Sleep(200 * time.Microsecond)
	}
	for o, n := range adopt {
		if closed[o] != n {
			t.Violate("C18", "poller_fds", "a poller opened %d descriptors and closed %d (3s after its loop exited)", n, closed[o])
			return
		}
	}
	t.Stat("pollers_probed", probes)
	t.Stat("pollers_opened", len(adopt))
	t.Stat("phases", len(ks))
	t.Nontrivial = pickers >= 2
	t.Sig = fmt.Sprintf("ks=%v|pickers=%d|rnd=%v|plan=%d", ks, vmClassI(pickers), random, func() int {
		if t.Plan == nil {
			return 0
		}
		return t.Plan.Mode
	}())
	var _ = atomic.LoadInt32
}

func vmClassI(n int) int {
	switch {
	case n <= 1:
		return 1
	case n <= 8:
		return 8
	case n <= 64:
		return 64
	}
	return 256
}

func vc18Counts(m map[Poll]int) []int {
	var out []int
	for _, c := range m {
		out = append(out, c)
	}
	return out
}

// vcRunC18GrowthFails: the pool is running with k0 loops, the configured count is raised, and
// opening one of the additional pollers fails (EMFILE/ENFILE/ENOMEM from epoll_create, or the
// registration of its wake-up descriptor fails). Pick has no error to return: it must still hand
// out a poller whose loop is running - the pool that was running is there. With the fault gone, a
// new SetNumLoops brings the pool to exactly the configured size.
func vcRunC18GrowthFails(t *vcTrial) {
	r := t.R
	k0 := r.rng(1, 4)
	k1 := k0 + r.rng(1, 5)
	t.P("variant", "growth of the running pool fails half-way")
	t.P("from", k0)
	t.P("to", k1)
	mark := vcTraceMark()
	audit := vcStartAudit()
	m := newManager(k0)
	defer func() {
		func() {
			defer func() { recover() }()
			m.Close()
		}()
		vc18Settle(audit)
	}()
	for i := 0; i < 2*k0; i++ {
		if p := m.Pick(); p == nil {
			t.Violate("C18", "nil_poller", "Pick returned nil on a fresh pool of %d", k0)
			return
		}
	}
	old := append([]Poll(nil), m.polls...)
	site := []int{vfltEpollCreate, vfltEpollCreate, vfltEpollCtlAdd}[r.intn(3)]
	es := vcErrnoBy[site]
	ru := &vcFaultRule{Site: site, Errno: es[r.intn(len(es))], FD: -1, Skip: int64(r.intn(k1 - k0)), Count: 1}
	t.P("fault", fmt.Sprintf("%s #%d fails with %v", vcFaultSiteNames[site], ru.Skip+1, ru.Errno))
	fp := &vcFaultPlan{Seed: r.next(), Rules: []*vcFaultRule{ru}}
	if err := m.SetNumLoops(k1); err != nil {
		t.Violate("C18", "setnumloops", "SetNumLoops(%d) = %v", k1, err)
		return
	}
	vcSetFaults(fp)
	var picked []Poll
	var pan interface{}
	func() {
		defer func() { pan = recover() }()
		for i := 0; i < 2*k1; i++ {
			picked = append(picked, m.Pick())
		}
	}()
	vcSetFaults(nil)
	if fp.Fired() == 0 {
		t.Inconclusive("the fault did not fire")
		return
	}
	t.Stat("pool_growths_failed", 1)
	if pan != nil {
		oldExited := 0
		for _, p := range old {
			if vcWaitPoint(mark, vpPollExit, vcObjID(p.(*defaultPoll)), 200*time.Millisecond) {
				oldExited++
			}
		}
		t.Violate("C18", "pick_panics", "the pool was running with %d loops; SetNumLoops(%d), then %s; Pick #%d after that panicked: %v (%d of the %d loops that were running have exited)", k0, k1, t.Param["fault"], len(picked)+1, pan, oldExited, len(old))
		return
	}
	seen := map[Poll]bool{}
	for i, p := range picked {
		if p == nil {
			t.Violate("C18", "nil_poller", "after a failed growth from %d to %d loops Pick #%d returned nil", k0, k1, i+1)
			return
		}
		seen[p] = true
	}
	for p := range seen {
		if err := vcProbePoll(p, 5*time.Second); err != nil {
			exited := vcSeenSince(mark, vpPollExit, vcObjID(p))
			if !exited {
				if err2 := vcProbePoll(p, time.Minute); err2 == nil {
					continue
				}
			}
			if vcRunnerProgress(5, 5*time.Second) {
				t.Violate("C18", "dead_poller", "after a failed growth from %d to %d loops (%s) Pick handed out a poller that is not running (its loop's exit is in the trace: %v): %v", k0, k1, t.Param["fault"], exited, err)
			} else {
				t.Inconclusive("probe failed and the canary made no progress")
			}
			return
		}
	}
	// the fault is gone: configuring again brings the pool to exactly that size
	if err := m.SetNumLoops(k1); err != nil {
		t.Violate("C18", "setnumloops", "SetNumLoops(%d) = %v", k1, err)
		return
	}
	counts := map[Poll]int{}
	for i := 0; i < 4*k1; i++ {
		p := m.Pick()
		if p == nil {
			t.Violate("C18", "nil_poller", "Pick returned nil after the pool was configured again")
			return
		}
		counts[p]++
	}
	if len(m.polls) != k1 || len(counts) != k1 {
		t.Violate("C18", "pool_size", "after a failed growth and a new SetNumLoops(%d) without faults the pool holds %d pollers and %d distinct ones were handed out in %d round-robin picks", k1, len(m.polls), len(counts), 4*k1)
		return
	}
	for p := range counts {
		if err := vcProbePoll(p, time.Minute); err != nil {
			t.Violate("C18", "dead_poller", "after the pool was configured again Pick handed out a poller that is not running: %v", err)
			return
		}
	}
	t.Nontrivial, t.Sig = true, fmt.Sprintf("growth-fails|%s", vcFaultSiteNames[site])
}

// vcRunC18Even: round-robin under truly parallel Picks, many of them: a few pollers, a handful of
// goroutines, tens of thousands of picks each (the wrap of the balancer's counter is crossed
// thousands of times by several goroutines at once). Per-poller counts differ by at most one.
func vcRunC18Even(t *vcTrial, k, goroutines, per int) {
	t.P("variant", "round-robin evenness under parallel picks")
	t.P("loops", k)
	t.P("goroutines", goroutines)
	t.P("picks_each", per)
	audit := vcStartAudit()
	m := newManager(k)
	defer func() {
		m.Close()
		vc18Settle(audit)
	}()
	m.Pick() // initialise
	counts := make([]map[Poll]int, goroutines)
	var wg sync.WaitGroup
	start := make(chan struct{})
	for g := 0; g < goroutines; g++ {
		counts[g] = map[Poll]int{}
		wg.Add(1)
		go func(c map[Poll]int) {
			defer wg.Done()
			<-start
			for i := 0; i < per; i++ {
				c[m.Pick()]++
			}
		}(counts[g])
	}
	close(start)
	wg.Wait()
	total := map[Poll]int{}
	n := 0
	for _, c := range counts {
		for p, v := range c {
			if p == nil {
				t.Violate("C18", "nil_poller", "Pick returned nil")
				return
			}
			total[p] += v
			n += v
		}
	}
	if len(total) != k {
		t.Violate("C18", "pool_size", "%d parallel round-robin picks over a pool of %d handed out %d distinct pollers", n, k, len(total))
		return
	}
	lo, hi := n, 0
	for _, c := range total {
		if c < lo {
			lo = c
		}
		if c > hi {
			hi = c
		}
	}
	// the initialising Pick above is one more for the first poller
	if hi-lo > 2 {
		t.Violate("C18", "uneven", "%d consecutive round-robin picks from %d goroutines over %d pollers were spread %v (max-min = %d)", n, goroutines, k, vc18Counts(total), hi-lo)
		return
	}
	t.Stat("parallel_roundrobin_picks", n)
	t.Nontrivial, t.Sig = true, fmt.Sprintf("even|k=%d|g=%d", k, vmClassI(goroutines))
}

// vc18Settle waits (bounded) until every poller descriptor the ledger saw opened has been closed:
// loops exit and close their descriptors on their own goroutines, and the next trial's ledger must
// not see this trial's closes.
func vc18Settle(audit *vcAudit) {
	for dl := time.Now().Add(5 * time.Second); time.Now().Before(dl); {
		adopt, closed := map[uintptr]int{}, map[uintptr]int{}
		audit.mu.Lock()
		for _, e := range audit.fds {
			if e.Kind == vfdEpoll || e.Kind == vfdEventfd {
				adopt[e.Owner]++
			}
			if e.Kind == -vfdEpoll || e.Kind == -vfdEventfd {
				closed[e.Owner]++
			}
		}
		audit.mu.Unlock()
		balanced := true
		for o, n := range adopt {
			if closed[o] < n {
				balanced = false
			}
		}
		if balanced {
			return
		}
		time.Sleep(200 * time.Microsecond)
	}
}
