// C06: request handling is serial and never leaves input stranded.
package netpoll

import (
	"syscall"
	"unsafe"
	"runtime"
	"context"
	"fmt"
	"net"
	"sync"
	"sync/atomic"
	"time"

	"github.com/cloudwego/netpoll/internal/runner"
)

func init() {
	vcScenarios["C06"] = vcScenC06
	vcDirected["C06"] = []vcScenario{
		vcRunC06HupWindow,
		func(t *vcTrial) { vcRunC06SetOnRequestTie(t, 16000) },
		func(t *vcTrial) {
			vcRunC06(t, vc06Cfg{Network: "tcp", Handler: "all", Chunks: 6, Mode: vcModePause, P: vpProcessAfterUnlock, Q: vpInputAckAfterBook, WriteOnPark: true})
		},
		func(t *vcTrial) {
			vcRunC06(t, vc06Cfg{Network: "unix", Handler: "all", Chunks: 6, Mode: vcModePause, P: vpProcessBetweenChecks, Q: vpInputAckBeforeTrigger, WriteOnPark: true})
		},
		func(t *vcTrial) {
			vcRunC06(t, vc06Cfg{Network: "tcp", Handler: "all", Chunks: 4, OnConnectUs: 3000, Mode: vcModePause, P: vpOnConnectBeforeUnlock, Q: vpOnRequestDeferred, WriteOnPark: true})
		},
		func(t *vcTrial) {
			vcRunC06(t, vc06Cfg{Network: "tcp", Handler: "all", Chunks: 4, OnConnectUs: 100, Mode: vcModePause, P: vpOnConnectAfterUnlock, Q: vpOnRequestEnter, WriteOnPark: true})
		},
		// D13: the last request and the peer's FIN arrive while the previous task is exiting
		func(t *vcTrial) {
			vcRunC06(t, vc06Cfg{Network: "unix", Handler: "frame", Chunks: 1, PeerClose: true, Mode: vcModePause, P: vpProcessBeforeUnlock, Q: vpOnHupAfterDisconnect, WriteOnPark: true})
		},
		func(t *vcTrial) {
			vcRunC06(t, vc06Cfg{Network: "tcp", Handler: "all", Chunks: 2, PeerClose: true, Mode: vcModePause, P: vpProcessBetweenChecks, Q: vpCloseCbBeforeRun, WriteOnPark: true})
		},
		// D20 (known): send+close completes before the accept path starts the OnConnect task
		func(t *vcTrial) {
			vcRunC06(t, vc06Cfg{Network: "tcp", Handler: "all", Chunks: 1, OnConnectUs: 100, PeerClose: true, Mode: vcModePause, P: vpAcceptAfterStore, Q: vpCloseCbDone, EarlyPlan: true})
		},
		func(t *vcTrial) { vcRunC06Client(t, true) },
		func(t *vcTrial) { vcRunC06Client(t, false) },
		func(t *vcTrial) { vcRunC06Client(t, false) },
		func(t *vcTrial) { vcRunC06Client(t, false) },
	}
}

type vc06Cfg struct {
	Network     string
	Handler     string // all | frame | some | block
	Chunks      int
	OnConnectUs int
	PeerClose   bool
	Mode        int
	P, Q        int
	WriteOnPark bool
	EarlyPlan   bool // arm the plan before the client connects (points on the accept path)
}

var vc06P = []int{vpProcessBeforeUnlock, vpProcessAfterUnlock, vpProcessBetweenChecks, vpProcessExit, vpOnConnectBeforeUnlock, vpOnConnectAfterUnlock, vpTaskStart, vpProcessStart, vpOnRequestDeferred}
var vc06Q = []int{vpInputAckAfterBook, vpInputAckBeforeTrigger, vpOnRequestEnter, vpOnRequestDeferred, vpPollBatchEnd}

func vcScenC06(t *vcTrial) {
	r := t.R
	if r.intn(100) == 0 {
		// a window a few instructions wide with no hook point inside is reached by volume only:
		// about sixteen times 6000 rounds per quick run besides the directed trial's 16000
		vcRunC06SetOnRequestTie(t, 6000)
		return
	}
	if r.chance(12) {
		vcRunC06Client(t, r.chance(50))
		return
	}
	cfg := vc06Cfg{Network: []string{"tcp", "unix"}[r.intn(2)]}
	cfg.Handler = []string{"all", "all", "frame", "some", "block", "deadline"}[r.intn(6)]
	cfg.Chunks = r.rng(1, 12)
	if r.chance(35) {
		cfg.OnConnectUs = []int{0, 100, 1000, 4000}[r.intn(4)] + 1
	}
	cfg.PeerClose = r.chance(50)
	switch r.intn(3) {
	case 0:
		cfg.Mode = vcModeJitter
	case 1:
		cfg.Mode = vcModePause
		cfg.P = vc06P[r.intn(len(vc06P))]
		cfg.Q = vc06Q[r.intn(len(vc06Q))]
		cfg.WriteOnPark = r.chance(70)
	}
	vcRunC06(t, cfg)
}

// vcRunnerProgress runs k no-op tasks through netpoll's task runner and reports whether they
// all executed within d: logical progress of the runner (canary).
func vcRunnerProgress(k int, d time.Duration) bool {
	var n int32
	done := make(chan struct{}, k)
	for i := 0; i < k; i++ {
		runner.RunTask(context.Background(), func() {
			atomic.AddInt32(&n, 1)
			done <- struct{}{}
		})
	}
	deadline := time.After(d)
	for i := 0; i < k; i++ {
		select {
		case <-done:
		case <-deadline:
			return false
		}
	}
	return true
}

const vc06Frame = 64

func vcRunC06(t *vcTrial, cfg vc06Cfg) {
	r := t.R
	t.P("cfg", fmt.Sprintf("%+v", cfg))
	t.P("P", vcPointName(cfg.P))
	t.P("Q", vcPointName(cfg.Q))
	seed := r.next()
	r2 := vfNewRng(r.next())
	var consumed uint64 // bytes verified by the handler
	var invocations int32
	var bad atomic.Value
	hr := vfNewRng(r.next())
	// the handler may only run serially: a plain (unsynchronised) in-handler flag detects overlap
	var inHandler int32
	so := vcSrvOpts{Network: cfg.Network, NCloseCb: 1}
	if cfg.OnConnectUs > 0 {
		so.OnConnect = func(ctx context.Context, rec *vcConnRec) {
			time.Sleep(time.Duration(cfg.OnConnectUs) * time.Microsecond)
		}
	}
	handlerErrPct := []int{0, 0, 30, 100}[r.intn(4)]
	errHandler := fmt.Errorf("verif: the handler reports an error (it has consumed its request)")
	t.P("handler_error_pct", handlerErrPct)
	so.OnRequest = func(ctx context.Context, rec *vcConnRec) error {
		if !atomic.CompareAndSwapInt32(&inHandler, 0, 1) {
			t.Violate("C06", "overlap", "two OnRequest invocations overlap on one connection")
		}
		defer atomic.StoreInt32(&inHandler, 0)
		atomic.AddInt32(&invocations, 1)
		rd := rec.Conn.Reader()
		pos := atomic.LoadUint64(&consumed)
		take := func(n int) bool {
			p, err := rd.Next(n)
			if err != nil {
				return false
			}
			if i := vfCheck(p, seed, pos); i >= 0 {
				bad.Store(fmt.Sprintf("handler read %d bytes at stream position %d: byte %d differs", n, pos, i))
			}
			pos += uint64(n)
			atomic.StoreUint64(&consumed, pos)
			return true
		}
		switch cfg.Handler {
		case "all":
			if l := rd.Len(); l > 0 {
				take(l)
			}
		case "frame":
			// one fixed-size frame per invocation; blocks for the rest of a partial frame
			if rd.Len() > 0 {
				take(vc06Frame)
			}
		case "some":
			if l := rd.Len(); l > 0 {
				take(hr.rng(1, l))
			}
		case "deadline":
			// a handler that works with read deadlines: now and then the deadline has already passed
			// when it asks for more than is buffered (ErrReadTimeout at once, nothing consumed), it
			// tolerates that, clears the deadline and takes what is there. The next delivery must
			// start the handler again like any other.
			if l := rd.Len(); l > 0 {
				if hr.chance(40) {
					rec.Conn.SetReadDeadline(time.Now().Add(-time.Millisecond))
					if _, err := rd.Next(l + vc06Frame); err == nil {
						bad.Store("Next for more than is buffered succeeded under an expired read deadline")
					}
					rec.Conn.SetReadDeadline(time.Time{})
				}
				take(l)
			}
		case "block":
			// asks for more than is buffered: a blocking read inside the handler
			if l := rd.Len(); l > 0 {
				if !take(l + vc06Frame) {
					if l2 := rd.Len(); l2 > 0 {
						take(l2)
					}
				}
			}
		}
		rd.Release()
		if hr.chance(handlerErrPct) {
			// what the handler returns is none of netpoll's business: input goes on being offered
			return errHandler
		}
		return nil
	}
	srv, err := vcStartServer(so)
	if err != nil {
		t.Inconclusive("server start: %v", err)
		return
	}
	defer srv.Stop(3 * time.Second)
	if cfg.EarlyPlan && cfg.Mode == vcModePause {
		vcSetPlan(&vcPlan{Mode: vcModePause, P: cfg.P, Q: cfg.Q, ArgQ: -1, Timeout: 30 * time.Millisecond})
	}
	cli, err := vcDialRaw(srv)
	if err != nil {
		t.Inconclusive("dial: %v", err)
		return
	}
	defer cli.Close()
	mark := vcTraceMark()
	// the sender: chunks of whole frames (so "frame"/"block" handlers always terminate). Position
	// bookkeeping and the socket write are one critical section: the main loop and the plan's
	// OnPark goroutine both append to the same stream.
	var sent uint64
	var wmu sync.Mutex
	cliClosed := false
	writeN := func(n int, split bool) {
		wmu.Lock()
		defer wmu.Unlock()
		if cliClosed {
			return
		}
		p := make([]byte, n)
		vfFill(p, seed, atomic.LoadUint64(&sent))
		for len(p) > 0 {
			k := len(p)
			if split {
				k = r2.rng(1, len(p))
			}
			m, err := cli.Write(p[:k])
			atomic.AddUint64(&sent, uint64(m)) // only what the kernel accepted counts as sent
			if err != nil {
				return
			}
			p = p[k:]
		}
	}
	sendChunk := func() {
		n := vc06Frame * r.rng(1, 8)
		if cfg.Handler == "all" || cfg.Handler == "some" {
			n = r.rng(1, 600)
		}
		writeN(n, true)
	}
	parkWrites := int32(0)
	switch cfg.Mode {
	case vcModeJitter:
		t.Plan = &vcPlan{Mode: vcModeJitter, Seed: r.next(), JitterPM: r.rng(50, 400), MaxSleep: time.Duration(r.rng(1, 300)) * time.Microsecond}
	case vcModePause:
		t.Plan = &vcPlan{Mode: vcModePause, P: cfg.P, Q: cfg.Q, ArgQ: -1, Timeout: time.Duration(r.rng(3, 25)) * time.Millisecond}
		if cfg.WriteOnPark {
			t.Plan.OnPark = func() {
				// data arrives exactly while the task sits at P
				writeN(vc06Frame, false)
				atomic.AddInt32(&parkWrites, 1)
			}
		}
	}
	rec := srv.nextAccepted(3 * time.Second)
	if rec == nil {
		t.Inconclusive("accept not seen")
		return
	}
	if !cfg.EarlyPlan {
		vcSetPlan(t.Plan)
	}
	defer vcSetPlan(nil)
	for i := 0; i < cfg.Chunks; i++ {
		sendChunk()
		// gaps tuned around handler return: from back-to-back to a few hundred microseconds
		switch r.intn(4) {
		case 0:
		case 1:
			time.Sleep(time.Duration(r.intn(50)) * time.Microsecond)
		default:
			time.Sleep(time.Duration(r.intn(600)) * time.Microsecond)
		}
	}
	// the "block" handler needs one more frame than it saw: top up so that it can return
	total := func() uint64 { return atomic.LoadUint64(&sent) }
	if cfg.Mode == vcModePause && cfg.WriteOnPark {
		// give the plan the chance to place its write before the peer closes
		for dl := time.Now().Add(100 * time.Millisecond); atomic.LoadInt32(&parkWrites) == 0 && time.Now().Before(dl); {
			time.Sleep(50 * time.Microsecond)
		}
	}
	if cfg.PeerClose {
		wmu.Lock()
		cliClosed = true
		cli.Close()
		wmu.Unlock()
	}
	// ---- bounded progress: everything sent must be consumed without any further network event
	deadline := time.Now().Add(8 * time.Second)
	for atomic.LoadUint64(&consumed) < total() && time.Now().Before(deadline) && !t.Violated() {
		if b, _ := bad.Load().(string); b != "" {
			break
		}
		c := vcInner(rec.Conn)
		stuck := atomic.LoadInt32(&inHandler) == 0 && c.isUnlock(processing) && c.IsActive() &&
			c.inputBuffer.Len() > 0 && atomic.LoadUint64(&consumed)+uint64(c.inputBuffer.Len()) == total() &&
			vcPollerDoneWithInput(mark, c) // the poller is not still on its way to start the handler
		if cfg.Handler == "block" && !cfg.PeerClose && atomic.LoadInt32(&inHandler) == 1 {
			// the handler legitimately waits for one more frame: provide it
			writeN(vc06Frame, false)
			time.Sleep(300 * time.Microsecond)
			continue
		}
		if stuck {
			// stuck-state witness: all bytes are already in the input buffer, nobody is handling them,
			// the lock is free. Confirm with logical progress elsewhere before calling it stranded.
			inv0, len0 := atomic.LoadInt32(&invocations), c.inputBuffer.Len()
			if !vcRunnerProgress(5, 5*time.Second) {
				t.Inconclusive("runner canary made no progress")
				return
			}
			time.Sleep(100 * time.Millisecond)
			if len0 > 0 && atomic.LoadUint64(&consumed) < total() && atomic.LoadInt32(&invocations) == inv0 && c.inputBuffer.Len() == len0 && c.isUnlock(processing) && c.IsActive() && atomic.LoadInt32(&inHandler) == 0 && vcPollerDoneWithInput(mark, c) {
				t.Violate("C06", "stranded_input", "%d unread bytes are buffered (sender wrote %d, handler consumed %d), the connection is active, no OnRequest invocation is in progress, the processing lock is free, and 5 runner tasks completed meanwhile: the input is stranded until another network event", len0, total(), atomic.LoadUint64(&consumed))
				break
			}
		}
		time.Sleep(100 * time.Microsecond)
	}
	if b, _ := bad.Load().(string); b != "" {
		t.Violate("C04", "wrong_bytes", "C06 scenario: %s", b)
	}
	if cfg.PeerClose && !t.Violated() {
		if !rec.waitClosed(8 * time.Second) {
			t.Inconclusive("close callbacks not seen 8s after the peer closed")
			return
		}
		// buffered input is offered to the handler before the close callbacks run
		if got := atomic.LoadUint64(&consumed); got != total() {
			evs := rec.events()
			cause := ""
			if cfg.OnConnectUs > 0 && rec.count(vcCbConnectStart) == 0 {
				cause = " [OnConnect was configured but never started: the peer's data and FIN were processed before the accept path started the OnConnect task, and the hang-up took the processing lock]"
			}
			t.Violate("C06", "input_dropped_at_close", "peer sent %d bytes and closed; the handler had consumed %d when the close callbacks ran (history tail %v)%s", total(), got, rec.history()[vcMaxInt(0, len(evs)-6):], cause)
		}
		// and no handler invocation after them
		evs := rec.events()
		lastReq, firstCls := -1, -1
		for i, e := range evs {
			if e.Kind == vcCbRequestEnd {
				lastReq = i
			}
			if e.Kind == vcCbClose && firstCls < 0 {
				firstCls = i
			}
		}
		if firstCls >= 0 && lastReq > firstCls {
			t.Violate("C06", "handler_after_close", "an OnRequest invocation ended after the close callbacks started")
		}
	} else if !t.Violated() && atomic.LoadUint64(&consumed) < total() && t.inconclusive == "" {
		t.Inconclusive("handler consumed %d of %d within 8s without a stuck-state witness", atomic.LoadUint64(&consumed), total())
	}
	if atomic.LoadInt32(&rec.maxD) > 1 {
		t.Violate("C06", "overlap", "OnRequest depth reached %d on one connection", atomic.LoadInt32(&rec.maxD))
	}
	// window statistics: data published (InputAckAfterBook) between the task's unlock and its exit
	evs := vcTraceSince(mark)
	inWindow := 0
	open := false
	for _, e := range evs {
		if e.Obj != rec.ID {
			continue
		}
		switch int(e.Point) {
		case vpProcessAfterUnlock:
			open = true
		case vpProcessExit, vpProcessStart:
			open = false
		case vpInputAckAfterBook:
			if open {
				inWindow++
			}
		}
	}
	t.Stat("handler_invocations", int(atomic.LoadInt32(&invocations)))
	t.Stat("arrivals_inside_unlock_recheck_window", inWindow)
	t.Stat("bytes_consumed", int(atomic.LoadUint64(&consumed)))
	if t.Plan != nil && t.Plan.Mode == vcModePause {
		t.Stat("pause_pairs_attempted", 1)
		if t.Plan.Realised() {
			t.Stat("pause_pairs_realised", 1)
		}
	}
	t.Nontrivial = atomic.LoadInt32(&invocations) >= 2 || inWindow > 0
	t.Sig = fmt.Sprintf("%s|%s|oc=%v|close=%v|win=%v|real=%v|inv=%d", cfg.Network, cfg.Handler, cfg.OnConnectUs > 0, cfg.PeerClose, inWindow > 0, t.Plan.Realised(), vcMinInt(int(atomic.LoadInt32(&invocations)), 3))
}

// vcRunC06Client: SetOnRequest on a dialed connection that already has (or is just getting) data.
func vcRunC06Client(t *vcTrial, racing bool) {
	r := t.R
	t.P("variant", "SetOnRequest-on-client")
	t.P("racing", racing)
	ln, err := net.Listen("tcp", "127.0.0.1:0")
	if err != nil {
		t.Inconclusive("listen: %v", err)
		return
	}
	defer ln.Close()
	acc := make(chan net.Conn, 1)
	go func() {
		c, err := ln.Accept()
		if err == nil {
			acc <- c
		}
	}()
	conn, err := DialConnection("tcp", ln.Addr().String(), 5*time.Second)
	if err != nil {
		t.Inconclusive("dial: %v", err)
		return
	}
	defer conn.Close()
	var peer net.Conn
	select {
	case peer = <-acc:
	case <-time.After(5 * time.Second):
		t.Inconclusive("accept timeout")
		return
	}
	defer peer.Close()
	seed := r.next()
	n := r.rng(1, 3000)
	p := make([]byte, n)
	vfFill(p, seed, 0)
	var consumed uint64
	var inv int32
	handler := func(ctx context.Context, c Connection) error {
		atomic.AddInt32(&inv, 1)
		l := c.Reader().Len()
		if l > 0 {
			b, err := c.Reader().Next(l)
			if err == nil {
				if i := vfCheck(b, seed, atomic.LoadUint64(&consumed)); i >= 0 {
					t.Violate("C04", "wrong_bytes", "client handler: byte %d of a %d byte read differs", i, l)
				}
				atomic.AddUint64(&consumed, uint64(l))
			}
			c.Reader().Release()
		}
		return nil
	}
	if r.chance(50) {
		t.Plan = &vcPlan{Mode: vcModeJitter, Seed: r.next(), JitterPM: r.rng(50, 500), MaxSleep: time.Duration(r.rng(1, 200)) * time.Microsecond}
		vcSetPlan(t.Plan)
		defer vcSetPlan(nil)
	}
	peerClosesFirst := !racing && r.chance(40)
	t.P("peer_closes_before_SetOnRequest", peerClosesFirst)
	if racing {
		go peer.Write(p)
		time.Sleep(time.Duration(r.intn(300)) * time.Microsecond)
		conn.SetOnRequest(handler)
	} else if peerClosesFirst {
		// the peer sends and hangs up before the handler is installed: the buffered input must
		// still be offered to the handler (and then the connection is torn down)
		peer.Write(p)
		peer.Close()
		mark := vcTraceMark() - 64
		dl := time.Now().Add(5 * time.Second)
		for (conn.Reader().Len() < n || conn.IsActive()) && time.Now().Before(dl) {
			time.Sleep(50 * time.Microsecond)
		}
		_ = mark
		if conn.Reader().Len() < n || conn.IsActive() {
			t.Inconclusive("data/hang-up did not arrive")
			return
		}
		conn.SetOnRequest(handler)
	} else {
		peer.Write(p)
		// wait until it is buffered, then install the handler: no further network event will come
		dl := time.Now().Add(5 * time.Second)
		for conn.Reader().Len() < n && time.Now().Before(dl) {
			time.Sleep(50 * time.Microsecond)
		}
		if conn.Reader().Len() < n {
			t.Inconclusive("data did not arrive")
			return
		}
		conn.SetOnRequest(handler)
	}
	dl := time.Now().Add(5 * time.Second)
	for atomic.LoadUint64(&consumed) < uint64(n) && time.Now().Before(dl) {
		time.Sleep(50 * time.Microsecond)
	}
	if got := atomic.LoadUint64(&consumed); got < uint64(n) {
		c := vcInner(conn)
		if peerClosesFirst && atomic.LoadInt32(&inv) == 0 && vcRunnerProgress(5, 5*time.Second) {
			t.Violate("C06", "stranded_input", "SetOnRequest on a client connection whose peer had sent %d bytes and closed before the handler was installed: the handler was never invoked (consumed %d, %d still buffered), runner canary tasks completed meanwhile", n, got, c.inputBuffer.Len())
		}
		if !t.Violated() && c.isUnlock(processing) && c.inputBuffer.Len() > 0 && got+uint64(c.inputBuffer.Len()) == uint64(n) && vcRunnerProgress(5, 5*time.Second) {
			time.Sleep(100 * time.Millisecond)
			if c.isUnlock(processing) && atomic.LoadUint64(&consumed) == got {
				t.Violate("C06", "stranded_input", "SetOnRequest on a client connection with %d bytes buffered (racing=%v): handler consumed %d, %d bytes stay buffered, no invocation in progress, lock free", n, racing, got, c.inputBuffer.Len())
			}
		}
		if !t.Violated() {
			t.Inconclusive("client handler consumed %d of %d within 5s", got, n)
		}
	}
	t.Stat("handler_invocations", int(atomic.LoadInt32(&inv)))
	t.Nontrivial = true
	t.Sig = fmt.Sprintf("client-setonrequest|racing=%v|peerclosed=%v|inv=%d", racing, peerClosesFirst, vcMinInt(int(atomic.LoadInt32(&inv)), 3))
}

// vcRunC06HupWindow: the last request and the FIN arrive while the handler task sits right before
// its unlock; the poller's hang-up path finds the lock taken (so it cannot start a handler task for
// the buffered request) and then tries the lock once more for the close callbacks - by then the
// task has released it. Placed exactly with hook callbacks: whoever gets the lock, the request
// must be offered to the handler before the close callbacks run.
func vcRunC06HupWindow(t *vcTrial) {
	t.P("variant", "hang-up between the task's unlock and its re-check")
	var connID uintptr
	var consumed uint64
	seed := t.R.next()
	so := vcSrvOpts{Network: "unix", NCloseCb: 1}
	so.OnPrepare = func(rec *vcConnRec) { connID = rec.ID }
	so.OnRequest = func(ctx context.Context, rec *vcConnRec) error {
		c := rec.Conn
		if n := c.Reader().Len(); n > 0 {
			if p, err := c.Reader().Next(n); err == nil {
				if i := vfCheck(p, seed, atomic.LoadUint64(&consumed)); i >= 0 {
					t.Violate("C04", "wrong_bytes", "handler: byte %d differs", i)
				}
				atomic.AddUint64(&consumed, uint64(n))
			}
			c.Reader().Release()
		}
		return nil
	}
	srv, err := vcStartServer(so)
	if err != nil {
		t.Inconclusive("server start: %v", err)
		return
	}
	defer srv.Stop(3 * time.Second)
	cli, err := vcDialRaw(srv)
	if err != nil {
		t.Inconclusive("dial: %v", err)
		return
	}
	defer cli.Close()
	rec := srv.nextAccepted(3 * time.Second)
	if rec == nil {
		t.Inconclusive("accept not seen")
		return
	}
	taskAtUnlock := make(chan struct{})
	hupAtCloseCb := make(chan struct{})
	taskUnlocked := make(chan struct{})
	var s1, s2, s3 int32
	vcPointCallback.Store(func(id int, obj uintptr, arg int) {
		if obj != connID {
			return
		}
		switch {
		case id == vpProcessBeforeUnlock && atomic.CompareAndSwapInt32(&s1, 0, 1):
			close(taskAtUnlock)
			select {
			case <-hupAtCloseCb:
			case <-time.After(2 * time.Second):
			}
		case ((id == vpCloseCbEnter && arg&2 != 0) || id == vpOnHupBeforeCloseLock) && atomic.CompareAndSwapInt32(&s2, 0, 1):
			// the hang-up path has found the lock taken and is about to try it for the close callbacks
			close(hupAtCloseCb)
			select {
			case <-taskUnlocked:
			case <-time.After(2 * time.Second):
			}
		case id == vpProcessAfterUnlock && atomic.CompareAndSwapInt32(&s3, 0, 1):
			close(taskUnlocked)
			time.Sleep(time.Millisecond) // the hang-up path takes the lock first
		}
	})
	defer vcPointCallback.Store(func(id int, obj uintptr, arg int) {})
	sent := uint64(0)
	write := func(n int) {
		b := make([]byte, n)
		vfFill(b, seed, sent)
		if m, _ := cli.Write(b); m > 0 {
			sent += uint64(m)
		}
	}
	write(100)
	select {
	case <-taskAtUnlock:
	case <-time.After(3 * time.Second):
		t.Inconclusive("the handler task did not reach its unlock")
		return
	}
	write(200) // the last request ...
	cli.Close() // ... and the FIN
	if !rec.waitClosed(6 * time.Second) {
		t.Inconclusive("close callbacks not seen (stages %d %d %d)", atomic.LoadInt32(&s1), atomic.LoadInt32(&s2), atomic.LoadInt32(&s3))
		return
	}
	if got := atomic.LoadUint64(&consumed); got != sent {
		t.Violate("C06", "input_dropped_at_close", "peer sent %d bytes and closed; the handler had consumed %d when the close callbacks ran: the hang-up path could not start a handler task (lock taken), then got the lock for the close callbacks right after the task's unlock and ran them over the buffered request (history tail %v)", sent, got, rec.history())
		return
	}
	t.Nontrivial = atomic.LoadInt32(&s2) == 1 && atomic.LoadInt32(&s3) == 1
	t.Stat("hup_window_trials_placed", int(atomic.LoadInt32(&s2)))
	t.Sig = "hup-window"
}

// vcRunC06SetOnRequestTie: SetOnRequest on a callback-less connection racing with the very first
// delivery, thousands of times on fresh socketpairs, the writer's lead steered by feedback towards
// the tie (half of the deliveries land before the handler is installed, half after). Whichever
// side comes second must start the handler; input buffered with a handler installed, no task
// running and nothing else coming is stranded (same witness as everywhere in C06).
func vcRunC06SetOnRequestTie(t *vcTrial, rounds int) {
	t.P("variant", "SetOnRequest racing the first delivery")
	t.P("rounds", rounds)
	workers := 8
	var before, after int64
	var wg sync.WaitGroup
	// placed rounds: the installer is held at SetOnRequest's entry (hook SetOnRequestEnter, on its own
	// goroutine) until the byte has been delivered and the poller has left that batch
	vcPointCallback.Store(func(id int, obj uintptr, arg int) {
		if id != vpSetOnRequestEnter {
			return
		}
		if fn, ok := vc06Placed.Load(obj); ok {
			fn.(func())()
		}
	})
	defer vcPointCallback.Store(func(id int, obj uintptr, arg int) {})
	for w := 0; w < workers; w++ {
		wg.Add(1)
		go func(wr *vfRng) {
			defer wg.Done()
			b, a := vc06TieWorker(t, wr, rounds/workers)
			atomic.AddInt64(&before, int64(b))
			atomic.AddInt64(&after, int64(a))
		}(vfNewRng(t.R.next()))
	}
	wg.Wait()
	t.Stat("setonrequest_placed_rounds", int(atomic.LoadInt64(&vc06PlacedN)))
	t.Stat("setonrequest_tie_rounds", int(before+after))
	t.Stat("setonrequest_input_first", int(before))
	t.Stat("setonrequest_handler_first", int(after))
	t.Nontrivial = int(before) > rounds/20 && int(after) > rounds/20
	t.Sig = fmt.Sprintf("setonrequest-tie|balanced=%v", t.Nontrivial)
}

var (
	vc06Placed  sync.Map // connection id -> func() run at SetOnRequestEnter
	vc06PlacedN int64
)

func vc06TieWorker(t *vcTrial, r *vfRng, rounds int) (before, after int) {
	lead := 2000 // spin iterations the installer waits after releasing the writer
	spin := func(n int) {
		x := 0
		for i := 0; i < n; i++ {
			x += i
		}
		_ = x
	}
	for i := 0; i < rounds && !t.Violated(); i++ {
		fds, err := syscall.Socketpair(syscall.AF_UNIX, syscall.SOCK_STREAM, 0)
		if err != nil {
			return
		}
		c, err := NewFDConnection(fds[0])
		if err != nil {
			syscall.Close(fds[0])
			syscall.Close(fds[1])
			return
		}
		inner := vcInner(c)
		var inv int32
		handler := func(ctx context.Context, c Connection) error {
			atomic.AddInt32(&inv, 1)
			c.Reader().Skip(c.Reader().Len())
			c.Reader().Release()
			return nil
		}
		start := make(chan struct{})
		wrote := make(chan struct{})
		placed := i%8 == 7
		mark := vcTraceMark()
		if placed {
			// the delivery happens while the installer stands at the entry of SetOnRequest, after
			// anything it may have looked at before the hook and before anything it does after it
			id := uintptr(unsafe.Pointer(inner))
			vc06Placed.Store(id, func() {
				syscall.Write(fds[1], []byte{1})
				for dl := time.Now().Add(2 * time.Second); time.Now().Before(dl); {
					if inner.inputBuffer.Len() > 0 && vcPollerDoneWithInput(mark, inner) {
						atomic.AddInt64(&vc06PlacedN, 1)
						break
					}
					time.Sleep(20 * time.Microsecond)
				}
			})
			c.SetOnRequest(handler)
			vc06Placed.Delete(id)
			close(wrote)
		} else {
			go func() {
				<-start
				syscall.Write(fds[1], []byte{1})
				close(wrote)
			}()
		}
		jit := r.intn(lead/2 + 1)
		close(start)
		buffered := true
		if !placed {
			spin(lead - lead/4 + jit)
			buffered = inner.inputBuffer.Len() > 0
			c.SetOnRequest(handler)
		}
		<-wrote
		if placed {
		} else if buffered {
			before++
			lead -= lead / 64
		} else {
			after++
			lead += lead/64 + 1
		}
		if lead < 16 {
			lead = 16
		}
		// bounded progress: the byte is delivered and handled
		ok := false
		for dl := time.Now().Add(200 * time.Millisecond); time.Now().Before(dl); {
			if atomic.LoadInt32(&inv) > 0 {
				ok = true
				break
			}
			runtime.Gosched()
		}
		if !ok {
			// witness: buffered, handler installed, nobody processing, runner alive, still so later
			// (the poller publishes the byte before it looks for the handler: it must have left that batch)
			if inner.inputBuffer.Len() > 0 && inner.isUnlock(processing) && vcPollerDoneWithInput(mark, inner) && vcRunnerProgress(5, 5*time.Second) {
				time.Sleep(100 * time.Millisecond)
				if atomic.LoadInt32(&inv) == 0 && inner.inputBuffer.Len() > 0 && inner.isUnlock(processing) {
					t.Violate("C06", "stranded_input", "round %d: SetOnRequest raced with the first delivery on a callback-less connection (input seen before installing: %v; delivery placed at the entry of SetOnRequest: %v): %d byte(s) are buffered, the handler is installed, no invocation was started, the processing lock is free and runner canary tasks completed meanwhile", i, buffered, placed, inner.inputBuffer.Len())
				}
			} else if atomic.LoadInt32(&inv) == 0 && inner.inputBuffer.Len() == 0 {
				// not delivered yet (loaded machine): wait for it, no verdict
				for dl := time.Now().Add(5 * time.Second); atomic.LoadInt32(&inv) == 0 && time.Now().Before(dl); {
					time.Sleep(time.Millisecond)
				}
			}
		}
		c.Close()
		syscall.Close(fds[1])
	}
	return
}
