// C10: connections are isolated from each other across slot and descriptor reuse.
package netpoll

import (
	"os"
	"context"
	"fmt"
	"net"
	"sync"
	"sync/atomic"
	"time"
	"unsafe"
)

func init() {
	vcScenarios["C10"] = vcScenC10
	vcDirected["C10"] = []vcScenario{
		// D10 regression: stale Release after the slot was re-issued
		func(t *vcTrial) { vcRunC12(t, vc12Cell{CloseMode: "user", Input: true, Output: false, Callbacks: true, Reissue: true}) },
		func(t *vcTrial) { vcRunC12(t, vc12Cell{CloseMode: "peer-user", Input: false, Output: true, Callbacks: false, Reissue: true}) },
	}
}

// vc10Conn is one pooled connection: a dialed netpoll connection echoing through OnRequest,
// and the raw peer that owns its PRF stream.
type vc10Conn struct {
	id     int
	conn   Connection
	inner  *connection
	op     *FDOperator
	fd     int
	peer   net.Conn
	seed   uint64
	sent   uint64
	back   uint64
	closed bool  // closed by the harness (user or peer)
	cbRan  int32 // close callback invocations
	reqs   int32
}

type vc10Pool struct {
	t     *vcTrial
	ln    net.Listener
	live  []*vc10Conn
	fill  []*vc10Conn // live connections that only keep poller slots occupied
	dead  []*vc10Conn
	next  int
	audit *vcAudit
	mark  uint64
}

func (p *vc10Pool) open() *vc10Conn {
	acc := make(chan net.Conn, 1)
	go func() {
		c, err := p.ln.Accept()
		if err == nil {
			acc <- c
		}
	}()
	c, err := DialConnection("tcp", p.ln.Addr().String(), 5*time.Second)
	if err != nil {
		p.t.Inconclusive("dial: %v", err)
		return nil
	}
	var peer net.Conn
	select {
	case peer = <-acc:
	case <-time.After(5 * time.Second):
		c.Close()
		p.t.Inconclusive("accept timeout")
		return nil
	}
	vc := &vc10Conn{id: p.next, conn: c, inner: vcInner(c), peer: peer, seed: p.t.R.next()}
	p.next++
	vc.op, vc.fd = vc.inner.operator, vc.inner.fd
	slow := time.Duration(0)
	if p.t.R.chance(25) && os.Getenv("VERIF_C10_NOSLOW") == "" {
		slow = time.Duration(p.t.R.rng(1, 6)) * time.Millisecond // keeps the poller's hang-up goroutine busy
	}
	c.AddCloseCallback(func(Connection) error {
		atomic.AddInt32(&vc.cbRan, 1)
		if slow > 0 {
			time.Sleep(slow)
		}
		return nil
	})
	c.SetOnRequest(func(ctx context.Context, c Connection) error {
		atomic.AddInt32(&vc.reqs, 1)
		n := c.Reader().Len()
		if n == 0 {
			return nil
		}
		in, err := c.Reader().Next(n)
		if err != nil {
			return nil
		}
		out, err := c.Writer().Malloc(n)
		if err == nil {
			copy(out, in)
		}
		c.Reader().Release()
		c.Writer().Flush()
		return nil
	})
	p.live = append(p.live, vc)
	return vc
}

// vc10Stall is the error of an echo that did not complete; everything else echo returns is a
// content error (foreign, lost or duplicated bytes), which needs no timing to be judged.
type vc10Stall struct {
	id, got, want int
	err           error
}

func (e *vc10Stall) Error() string {
	return fmt.Sprintf("echo of connection %d stalled after %d of %d bytes: %v", e.id, e.got, e.want, e.err)
}

var vc10SlowEchoes int64

// echo sends n bytes of the connection's own stream and expects exactly them back. The deadline d
// is only a first patience: when it passes the read goes on for another minute (a loaded machine
// is slow, not wrong); only an echo that is still missing then is reported as a stall, and
// judgeEcho decides what the stall means.
func (vc *vc10Conn) echo(n int, d time.Duration) error {
	buf := make([]byte, n)
	vfFill(buf, vc.seed, vc.sent)
	vc.peer.SetDeadline(time.Now().Add(d + time.Minute))
	if _, err := vc.peer.Write(buf); err != nil {
		return fmt.Errorf("peer write failed: %v", err)
	}
	vc.sent += uint64(n)
	got := make([]byte, n)
	m := 0
	t0 := time.Now()
	for m < n {
		k, err := vc.peer.Read(got[m:])
		if k > 0 {
			if i := vfCheck(got[m:m+k], vc.seed, vc.back); i >= 0 {
				return fmt.Errorf("echo stream of connection %d differs at position %d: foreign, lost or duplicated bytes", vc.id, vc.back+uint64(i))
			}
			vc.back += uint64(k)
			m += k
		}
		if err != nil {
			if ne, ok := err.(net.Error); !ok || !ne.Timeout() {
				// EOF or reset: the netpoll side of a live connection was closed - no timing involved
				return fmt.Errorf("echo of connection %d ended after %d of %d bytes with %v: the connection was closed under its owner", vc.id, m, n, err)
			}
			return &vc10Stall{id: vc.id, got: m, want: n, err: err}
		}
	}
	if time.Since(t0) > d {
		atomic.AddInt64(&vc10SlowEchoes, 1)
	}
	return nil
}

func vcScenC10(t *vcTrial) {
	r := t.R
	if r.chance(25) {
		// the enumerative stale-call cells of C12 with a re-issued slot
		cells := vc12Cells()
		var re []vc12Cell
		for _, c := range cells {
			if c.Reissue && !(c.CloseMode == "peer" && !c.Callbacks) {
				re = append(re, c)
			}
		}
		vcRunC12(t, re[r.intn(len(re))])
		return
	}
	vcRunC10(t)
}

func vcRunC10(t *vcTrial) {
	r := t.R
	ln, err := net.Listen("tcp", "127.0.0.1:0")
	if err != nil {
		t.Inconclusive("listen: %v", err)
		return
	}
	defer ln.Close()
	mark := vcTraceMark()
	pool := &vc10Pool{t: t, ln: ln, audit: vcStartAudit(), mark: mark}
	window := r.chance(40)
	t.P("fetch_dispatch_window", window)
	nops := r.rng(12, 40)
	var hist []string
	defer func() {
		for _, c := range pool.live {
			c.peer.Close()
			if !t.Violated() {
				c.conn.Close()
			}
		}
		for _, c := range pool.dead {
			c.peer.Close()
		}
		for _, c := range pool.fill {
			c.peer.Close()
			if !t.Violated() {
				c.conn.Close()
			}
		}
	}()
	for i := 0; i < r.rng(2, 5); i++ {
		if pool.open() == nil {
			return
		}
		hist = append(hist, "open")
	}
	// in part of the single-poller trials the operator cache is driven to exhaustion first (dozens
	// of live connections): the next allocation has no free slot and must grow the cache - it may
	// not take back slots that were freed during the batch that is still being dispatched
	fillers := 0
	if vfEnvInt("VERIF_LOOPS", 1) == 1 && r.chance(40) {
		dp, _ := pollmanager.Pick().(*defaultPoll)
		for dp != nil && fillers < 150 {
			lock(&dp.opcache.locked)
			empty := dp.opcache.first == nil
			unlock(&dp.opcache.locked)
			if empty {
				break
			}
			vc := pool.open()
			if vc == nil {
				return
			}
			pool.live = pool.live[:len(pool.live)-1]
			pool.fill = append(pool.fill, vc)
			fillers++
		}
		hist = append(hist, fmt.Sprintf("fill-cache(%d)", fillers))
		window = true
	}
	calls := vc12Calls()
	// Detach as a stale call too (only here, where the teardown of the old connection is complete and
	// its descriptor closed: nothing is handed back to the user any more)
	calls = append(calls, vc12Call{"Detach", "close", func(c Connection, n int) (error, []byte) {
		if d, ok := c.(interface{ Detach() error }); ok {
			return d.Detach(), nil
		}
		return nil, nil
	}})
	staleCalls, reuses, fdReuses, windows := 0, 0, 0, 0
	closesUnderWrite, massHups := 0, 0
	for step := 0; step < nops && !t.Violated() && t.inconclusive == ""; step++ {
		switch k := r.intn(10); {
		case k < 2 && len(pool.live) < 8:
			// open: prefers to happen right after a close, so that slot and descriptor are reused at once
			vc := pool.open()
			if vc == nil {
				return
			}
			for _, d := range pool.dead {
				if d.op == vc.op {
					reuses++
				}
				if d.fd == vc.fd {
					fdReuses++
				}
			}
			hist = append(hist, fmt.Sprintf("open#%d", vc.id))
		case k < 4 && len(pool.live) > 1:
			// close one (user / peer FIN / peer RST)
			j := r.intn(len(pool.live))
			vc := pool.live[j]
			pool.live = append(pool.live[:j], pool.live[j+1:]...)
			how := []string{"user", "fin", "rst"}[r.intn(3)]
			if window && how == "user" {
				// place the close (and a reopen) between the fetch and the dispatch of a poller batch
				// in which this connection has a readable event
				plan := &vcPlan{Mode: vcModePause, P: vpPollBatchBegin, Q: vpOpAlloc, ArgQ: -1, Timeout: 30 * time.Millisecond}
				var wg sync.WaitGroup
				wg.Add(1)
				plan.OnPark = func() {
					defer wg.Done()
					vc.conn.Close()
					if nv := pool.open(); nv != nil {
						for _, d := range append(pool.dead, vc) {
							if d.op == nv.op {
								reuses++
							}
						}
					}
				}
				vcSetPlan(plan)
				vc.peer.Write([]byte("data-for-the-connection-that-is-closed-in-the-window"))
				done := make(chan struct{})
				go func() { wg.Wait(); close(done) }()
				select {
				case <-done:
					windows++
				case <-time.After(100 * time.Millisecond):
				}
				vcSetPlan(nil)
				if plan.Parked() {
					<-done // OnPark is running or has run: never overlap it with the history
				} else {
					vc.conn.Close() // the batch was not caught: close anyway
				}
				hist = append(hist, fmt.Sprintf("close-in-window#%d", vc.id))
			} else {
				switch how {
				case "user":
					vc.conn.Close()
				case "fin":
					vc.peer.Close()
				case "rst":
					vcRST(vc.peer)
				}
				hist = append(hist, fmt.Sprintf("close-%s#%d", how, vc.id))
			}
			vc.closed = true
			pool.dead = append(pool.dead, vc)
		case k == 5 && len(pool.live) > 3 && r.chance(50):
			// several peers hang up at once (their hang-ups are queued in one batch and run one after
			// the other on the poller's hang-up goroutine, some with a slow close callback); the user
			// closes the last of them himself while its hang-up may still be queued, and new
			// connections are opened at once: a queued hang-up must never reach the new owner of a slot
			nh := r.rng(2, 3)
			var group []*vc10Conn
			for i := 0; i < nh && len(pool.live) > 1; i++ {
				j := r.intn(len(pool.live))
				group = append(group, pool.live[j])
				pool.live = append(pool.live[:j], pool.live[j+1:]...)
			}
			for _, g := range group {
				g.peer.Close()
			}
			time.Sleep(time.Duration(r.intn(400)) * time.Microsecond)
			group[len(group)-1].conn.Close()
			for _, g := range group {
				g.closed = true
				pool.dead = append(pool.dead, g)
			}
			for n := 0; n < len(group) && len(pool.live) < 8; n++ {
				nv := pool.open()
				if nv == nil {
					return
				}
				for _, d := range pool.dead {
					if d.op == nv.op {
						reuses++
					}
				}
				time.Sleep(time.Duration(r.intn(300)) * time.Microsecond)
			}
			time.Sleep(time.Duration(r.rng(0, 8)) * time.Millisecond)
			for _, l := range pool.live {
				if err := l.echo(r.rng(1, 500), 5*time.Second); err != nil {
					pool.judgeEcho(l, err, append(hist, "mass-hangup"))
					return
				}
			}
			massHups++
			hist = append(hist, fmt.Sprintf("mass-hangup(%d)", len(group)))
		case k == 4 && len(pool.live) > 1 && r.chance(50):
			// close under write: one writer goroutine keeps sending on A while this goroutine closes A
			// and opens new connections at once (A's descriptor number is re-issued immediately). A
			// send that is still in flight for A must never reach the new owner of that number.
			j := r.intn(len(pool.live))
			vc := pool.live[j]
			pool.live = append(pool.live[:j], pool.live[j+1:]...)
			go func(p net.Conn) { // A's peer drains and discards
				buf := make([]byte, 64<<10)
				for {
					p.SetReadDeadline(time.Now().Add(2 * time.Second))
					if _, err := p.Read(buf); err != nil {
						return
					}
				}
			}(vc.peer)
			// large payloads: Write copies them into the output buffer first, which keeps the writer
			// between its IsActive check and its sendmsg for milliseconds
			junk := make([]byte, r.rng(4<<20, 32<<20))
			for i := range junk {
				junk[i] = 0xAB
			}
			wdone := make(chan struct{})
			var wIter int32
			go func() {
				defer close(wdone)
				defer func() { recover() }() // a writer racing Close may hit D22; not this step's subject
				for i := 0; i < 40; i++ {
					atomic.AddInt32(&wIter, 1)
					if _, err := vc.conn.Write(junk); err != nil {
						return
					}
				}
			}()
			time.Sleep(time.Duration(r.intn(6000)) * time.Microsecond)
			// the closer runs on its own goroutine (Close waits for the writer to leave the flushing
			// section); meanwhile new connections are opened, so that a descriptor closed too early is
			// re-issued while A's writer is still on its way to sendmsg
			cdone := make(chan struct{})
			go func() { defer close(cdone); vc.conn.Close() }()
			vc.closed = true
			pool.dead = append(pool.dead, vc)
			for n := 0; n < 3 && len(pool.live) < 8; n++ {
				nv := pool.open()
				if nv == nil {
					return
				}
				if nv.fd == vc.fd {
					fdReuses++
				}
				if err := nv.echo(r.rng(1, 3000), 5*time.Second); err != nil {
					pool.judgeEcho(nv, err, append(hist, fmt.Sprintf("close-under-write#%d", vc.id)))
					return
				}
			}
			select {
			case <-wdone:
			case <-time.After(40 * time.Second):
				it0 := atomic.LoadInt32(&wIter)
				st0 := vcStacksContaining("connection).Write")
				time.Sleep(300 * time.Millisecond)
				// walk the output chain (diagnostic, racy): a cycle or an absurd length shows a corrupted chain
				steps, cyc := 0, false
				ob := vc.inner.outputBuffer
				for n := ob.head; n != nil && steps < 2000000; n = n.next {
					steps++
				}
				cyc = steps >= 2000000
				t.Inconclusive("writer on a closed connection did not stop within 40s; Write iterations %d then %d (300 ms later), active=%v closedByUser=%v flushing=%d chain steps=%d cycle=%v outLen=%d; stacks: %.1500s ||| %.1500s", it0, atomic.LoadInt32(&wIter), vc.inner.IsActive(), vc.inner.isCloseBy(user), vc.inner.status(flushing), steps, cyc, ob.Len(), st0, vcStacksContaining("connection).Write"))
				return
			}
			select {
			case <-cdone:
			case <-time.After(10 * time.Second):
				t.Inconclusive("Close under write did not return within 10s")
				return
			}
			// anything that was injected while the writer wound down shows up now
			for _, l := range pool.live {
				if err := l.echo(r.rng(1, 500), 5*time.Second); err != nil {
					pool.judgeEcho(l, err, append(hist, fmt.Sprintf("close-under-write#%d", vc.id)))
					return
				}
			}
			closesUnderWrite++
			hist = append(hist, fmt.Sprintf("close-under-write#%d", vc.id))
		case k < 7 && len(pool.dead) > 0:
			// a stale call on a closed connection, while the others are live
			vc := pool.dead[r.intn(len(pool.dead))]
			call := calls[r.intn(len(calls))]
			// "API calls on it after it was closed": the teardown (peer FIN/RST is processed by the
			// poller asynchronously) must be complete - a call racing with it is C07/C08's subject
			// (known findings D21/D22), not a stale call
			if !vcWaitPoint(mark, vpCloseCbDone, uintptr(unsafe.Pointer(vc.inner)), 2*time.Second) {
				continue
			}
			res := make(chan interface{}, 1)
			go func() {
				defer func() { res <- recover() }()
				call.Fn(vc.conn, vc.inner.inputBuffer.Len())
			}()
			select {
			case p := <-res:
				if p != nil {
					t.Violate("C10", "stale_call_panics", "stale %s on closed connection #%d (slot shared with a live connection: %v) panicked: %v; history %v", call.Name, vc.id, pool.sharesSlot(vc), p, hist)
					return
				}
			case <-time.After(5 * time.Second):
				if vcRunnerProgress(5, 5*time.Second) {
					t.Violate("C10", "stale_call_blocks", "stale %s on closed connection #%d has not returned after 5s; history %v", call.Name, vc.id, hist)
				} else {
					t.Inconclusive("stale %s did not return, canary without progress", call.Name)
				}
				return
			}
			staleCalls++
			hist = append(hist, fmt.Sprintf("stale-%s#%d", call.Name, vc.id))
		default:
			if len(pool.live) == 0 {
				continue
			}
			vc := pool.live[r.intn(len(pool.live))]
			if err := vc.echo(r.rng(1, 3000), 5*time.Second); err != nil {
				pool.judgeEcho(vc, err, hist)
				return
			}
			hist = append(hist, fmt.Sprintf("echo#%d", vc.id))
		}
	}
	// final: every live connection is still served and intact; none of them was closed on behalf of another
	for _, vc := range pool.live {
		if err := vc.echo(r.rng(1, 2000), 5*time.Second); err != nil {
			pool.judgeEcho(vc, err, hist)
			return
		}
		if atomic.LoadInt32(&vc.cbRan) != 0 {
			t.Violate("C10", "foreign_close", "the close callback of live connection #%d ran although only other connections were closed; history %v", vc.id, hist)
			return
		}
	}
	// ---- slot ownership ledger from the hook events (single owner; no re-issue before the batch end)
	if msg := vc10Ledger(pool.audit, vcTraceSince(mark), vfEnvInt("VERIF_LOOPS", 1) == 1); msg != "" {
		t.Violate("C10", "slot_ledger", "%s; history %v", msg, hist)
	}
	t.P("history_tail", hist[vcMaxInt(0, len(hist)-12):])
	t.Stat("cache_exhausting_fillers", fillers)
	t.Stat("closes_under_write", closesUnderWrite)
	t.Stat("mass_hangups", massHups)
	t.Stat("echoes_slower_than_5s", int(atomic.SwapInt64(&vc10SlowEchoes, 0)))
	t.Stat("stale_calls", staleCalls)
	t.Stat("slot_reuses", reuses)
	t.Stat("fd_number_reuses", fdReuses)
	t.Stat("fetch_dispatch_windows_hit", windows)
	t.Stat("ledger_events", len(pool.audit.ops))
	t.Nontrivial = reuses > 0 || fdReuses > 0
	t.Sig = fmt.Sprintf("hist|stale=%d|reuse=%v|fdreuse=%v|win=%v|ops=%d|fill=%v", vcMinInt(staleCalls, 5), reuses > 0, fdReuses > 0, windows > 0, len(hist)/8, fillers > 0)
}

func (p *vc10Pool) sharesSlot(vc *vc10Conn) bool {
	for _, l := range p.live {
		if l.op == vc.op {
			return true
		}
	}
	return false
}

func (p *vc10Pool) judgeEcho(vc *vc10Conn, err error, hist []string) {
	state := atomic.LoadInt32(&vc.op.state)
	if st, ok := err.(*vc10Stall); ok {
		// a stall counts only with a witness that the rest of the system is served meanwhile: a
		// fresh connection on the same poller pool completes an echo while this one stays stuck
		probe := p.open()
		if probe == nil {
			return // open() recorded the inconclusive verdict
		}
		p.live = p.live[:len(p.live)-1]
		perr := probe.echo(64, 30*time.Second)
		probe.peer.Close()
		probe.conn.Close()
		if perr != nil || !vcRunnerProgress(5, 5*time.Second) {
			p.t.Inconclusive("echo stalled (%v) and so did a fresh probe connection (%v): the machine, not the connection", st, perr)
			return
		}
		vc.peer.SetReadDeadline(time.Now().Add(2 * time.Second))
		if k, _ := vc.peer.Read(make([]byte, st.want-st.got)); k > 0 {
			p.t.Inconclusive("echo of connection %d resumed after more than a minute", vc.id)
			return
		}
		p.t.Violate("C10", "bystander_disturbed", "live connection #%d: %v - more than a minute, while a fresh probe connection was served at once (its slot state is %d, 1 is normal; its slot is shared with a closed connection: %v; unread input buffered %d, handler invocations %d); history %v", vc.id, err, state, p.sharesDead(vc), vc.inner.inputBuffer.Len(), atomic.LoadInt32(&vc.reqs), hist)
		return
	}
	p.t.Violate("C10", "bystander_disturbed", "live connection #%d: %v (its slot state is %d, 1 is normal; its slot is shared with a closed connection: %v; %s); history %v", vc.id, err, state, p.sharesDead(vc), p.diagnose(vc), hist)
}

// diagnose says what netpoll did to a bystander: who closed its descriptor number, whether its
// close callbacks ran and on whose behalf, and the poller events dispatched to its slot.
func (p *vc10Pool) diagnose(vc *vc10Conn) string {
	who := func(owner uintptr) string {
		for _, l := range append(append([]*vc10Conn{}, p.live...), p.dead...) {
			if uintptr(unsafe.Pointer(l.inner)) == owner || uintptr(unsafe.Pointer(&l.inner.netFD)) == owner {
				return fmt.Sprintf("connection #%d (closed=%v)", l.id, l.closed)
			}
		}
		return fmt.Sprintf("owner %x", owner&0xffffff)
	}
	out := fmt.Sprintf("fd %d, close callbacks ran %d, closed by user %v / by poller %v", vc.fd, atomic.LoadInt32(&vc.cbRan), vc.inner.isCloseBy(user), vc.inner.isCloseBy(poller))
	p.audit.mu.Lock()
	for _, e := range p.audit.fds {
		if e.FD == vc.fd {
			out += fmt.Sprintf("; fd-event seq %d kind %d by %s (open=%v inode %d)", e.Seq, e.Kind, who(e.Owner), e.Open, e.Ino)
		}
	}
	p.audit.mu.Unlock()
	n := 0
	evs := vcTraceSince(p.mark)
	for i := len(evs) - 1; i >= 0 && n < 24; i-- {
		e := evs[i]
		if e.Obj == uintptr(unsafe.Pointer(vc.op)) || e.Obj == uintptr(unsafe.Pointer(vc.inner)) {
			out += fmt.Sprintf("; [%d %s arg=%d]", e.Seq, vcPointName(int(e.Point)), e.Arg)
			n++
		}
	}
	return out
}

func (p *vc10Pool) sharesDead(vc *vc10Conn) bool {
	for _, d := range p.dead {
		if d.op == vc.op {
			return true
		}
	}
	return false
}

// vc10Ledger replays alloc/freeable/splice events per slot: a slot is issued only when it is
// free, freed only when it is owned, and comes back to the free list only through a splice
// that happens outside the dispatch of a batch (checked when one poller runs).
func vc10Ledger(a *vcAudit, evs []vcEvent, single bool) string {
	a.mu.Lock()
	ops := append([]vcEvent(nil), a.ops...)
	a.mu.Unlock()
	const (
		free = iota
		owned
		retired // freeable seen, not spliced yet
	)
	state := map[uintptr]int{}
	seen := map[uintptr]bool{}
	for _, e := range ops {
		s, known := state[e.Obj], seen[e.Obj]
		switch int(e.Point) {
		case vpOpAlloc:
			if known && s == owned {
				return fmt.Sprintf("slot %d issued while it still has an owner", e.Arg)
			}
			if known && s == retired {
				return fmt.Sprintf("slot %d re-issued before the poller spliced it back (an already fetched event could still be dispatched through it)", e.Arg)
			}
			state[e.Obj], seen[e.Obj] = owned, true
		case vpOpFreeable:
			if known && s != owned {
				return fmt.Sprintf("slot %d released while it has no owner (state %d)", e.Arg, s)
			}
			state[e.Obj], seen[e.Obj] = retired, true
		case vpOpFreeSplice:
			if known && s != retired {
				return fmt.Sprintf("slot %d spliced into the free list in state %d", e.Arg, s)
			}
			state[e.Obj], seen[e.Obj] = free, true
		}
	}
	if single {
		in := false
		for _, e := range evs {
			switch int(e.Point) {
			case vpPollBatchBegin:
				in = true
			case vpPollDispatchDone:
				in = false
			case vpOpFreeSplice:
				if in {
					return fmt.Sprintf("slot %d returned to the free list while the poller was still dispatching the batch", e.Arg)
				}
			}
		}
	}
	return ""
}
