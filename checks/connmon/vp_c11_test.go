// C11: the poller dispatches each descriptor's events completely and in order.
package netpoll

import (
	"fmt"
	"net"
	"sync"
	"sync/atomic"
	"syscall"
	"time"
	"unsafe"
)

func init() {
	vcScenarios["C11"] = vcScenC11
	vcDirected["C11"] = []vcScenario{
		func(t *vcTrial) { vpRunGrid(t, 0) },
		func(t *vcTrial) { vpRunGrid(t, 1) },
		func(t *vcTrial) { vpRunKernel(t, 300, "unix") }, // crosses the 128 -> 256 -> 512 event array growth
		vpRunHupReuse,
		vpRunHupReuse,
		vpRunTriggerBurst,
	}
}

func vcScenC11(t *vcTrial) {
	r := t.R
	switch r.intn(8) {
	case 7:
		vpRunHupReuse(t)
	case 6:
		if r.chance(50) {
			vpRunTriggerBurst(t)
		} else {
			vpRunKernel(t, r.rng(1, 40), []string{"unix", "tcp"}[r.intn(2)])
		}
	case 0:
		vpRunGrid(t, r.intn(2))
	case 1:
		vpRunKernel(t, r.rng(130, 600), "unix")
	default:
		vpRunKernel(t, r.rng(1, 40), []string{"unix", "tcp"}[r.intn(2)])
	}
}

// ------------------------------------------------------------------ a harness-owned descriptor

type vpDesc struct {
	id       int
	fd, peer int
	op       *FDOperator
	flavour  int // 0: OnRead/OnWrite, 1: Inputs/InputAck/Outputs/OutputAck
	seed     uint64
	got      uint64 // inbound bytes delivered and verified
	bad      atomic.Value
	mu       sync.Mutex
	evs      []string
	hups     int32
	hupDet   int32 // op.detached observed inside OnHup
	dead     int32 // set when a detach completed (by the poller's hang-up or by the harness on the poller goroutine)
	late     int32 // callbacks after dead
	inbuf    []byte
	// outbound
	outSeed  uint64
	outLeft  int
	outPos   uint64
	outAcked uint64
	outBuf   []byte
	selfDetachAt uint64 // detach from inside OnRead/InputAck once this many bytes were delivered (0: never)
	hupDelay     time.Duration // OnHup takes this long (keeps the poller's hang-up goroutine busy)
	hupStarted   int32
}

func (d *vpDesc) note(s string) {
	d.mu.Lock()
	d.evs = append(d.evs, s)
	d.mu.Unlock()
}

// entered is kept for the event list only; whether a callback came after a detach is decided
// from the hook trace (no new dispatch of the operator after its PollDetach), see judgeTrace.
func (d *vpDesc) entered(what string) {
	if atomic.LoadInt32(&d.dead) != 0 {
		d.note("after-detach:" + what)
	}
}

// vpDispatchAfterDetach reports whether the trace shows the poller dispatching an event to
// operator op after op was detached on the poller goroutine.
func vpDispatchAfterDetach(evs []vcEvent, op uintptr) (bool, string) {
	detached := false
	for _, e := range evs {
		if e.Obj != op {
			continue
		}
		switch int(e.Point) {
		case vpPollControl:
			if PollEvent(e.Arg) == PollDetach {
				detached = true
			}
		case vpOpFreeable:
			detached = false // the slot may be re-issued
		case vpPollEvent:
			if detached {
				return true, vfSprintf("event 0x%x dispatched (trace seq %d) after the descriptor's PollDetach", e.Arg, e.Seq)
			}
		}
	}
	return false, ""
}

func (d *vpDesc) deliver(p []byte) {
	pos := atomic.LoadUint64(&d.got)
	if i := vfCheck(p, d.seed, pos); i >= 0 && d.bad.Load() == nil {
		d.bad.Store(fmt.Sprintf("descriptor %d: input byte at stream position %d differs (reordered, duplicated or foreign data)", d.id, pos+uint64(i)))
	}
	atomic.AddUint64(&d.got, uint64(len(p)))
	d.note(fmt.Sprintf("in:%d", len(p)))
	if d.selfDetachAt != 0 && pos+uint64(len(p)) >= d.selfDetachAt && atomic.CompareAndSwapInt32(&d.dead, 0, 1) {
		// detach performed on the poller goroutine itself: strictly no callback may follow
		d.op.Control(PollDetach)
		d.note("selfdetach")
	}
}

func (d *vpDesc) install(p Poll) {
	op := p.Alloc()
	op.FD = d.fd
	d.op = op
	op.OnHup = func(Poll) error {
		atomic.StoreInt32(&d.hupStarted, 1)
		if d.hupDelay > 0 {
			time.Sleep(d.hupDelay)
		}
		atomic.StoreInt32(&d.hupDet, atomic.LoadInt32(&op.detached))
		if atomic.AddInt32(&d.hups, 1) == 1 {
			d.note("hup")
		} else {
			d.note("HUP-AGAIN")
		}
		atomic.StoreInt32(&d.dead, 1)
		return nil
	}
	if d.flavour == 0 {
		op.OnRead = func(Poll) error {
			d.entered("OnRead")
			buf := make([]byte, 4096)
			for {
				n, err := syscall.Read(d.fd, buf)
				if n > 0 {
					d.deliver(buf[:n])
					if atomic.LoadInt32(&d.dead) != 0 {
						return nil
					}
					continue
				}
				_ = err
				return nil
			}
		}
		op.OnWrite = func(Poll) error {
			d.entered("OnWrite")
			d.note("out")
			if d.outLeft > 0 {
				n := vcMinInt(d.outLeft, 3000)
				b := make([]byte, n)
				vfFill(b, d.outSeed, d.outPos)
				m, _ := syscall.Write(d.fd, b)
				if m > 0 {
					d.outPos += uint64(m)
					d.outLeft -= m
					atomic.AddUint64(&d.outAcked, uint64(m))
				}
			}
			if d.outLeft == 0 {
				op.Control(PollRW2R)
			}
			return nil
		}
		return
	}
	d.inbuf = make([]byte, 2048)
	op.Inputs = func(vs [][]byte) [][]byte {
		d.entered("Inputs")
		vs[0] = d.inbuf
		return vs[:1]
	}
	op.InputAck = func(n int) error {
		d.entered("InputAck")
		if n > 0 {
			d.deliver(d.inbuf[:n])
		}
		return nil
	}
	op.Outputs = func(vs [][]byte) ([][]byte, bool) {
		d.entered("Outputs")
		if d.outLeft == 0 {
			op.Control(PollRW2R)
			return nil, false
		}
		n := vcMinInt(d.outLeft, 3000)
		d.outBuf = make([]byte, n)
		vfFill(d.outBuf, d.outSeed, d.outPos)
		vs[0] = d.outBuf
		return vs[:1], false
	}
	op.OutputAck = func(n int) error {
		d.entered("OutputAck")
		d.note(fmt.Sprintf("out:%d", n))
		if n > 0 {
			d.outPos += uint64(n)
			d.outLeft -= n
			atomic.AddUint64(&d.outAcked, uint64(n))
		}
		if d.outLeft == 0 {
			op.Control(PollRW2R)
		}
		return nil
	}
}

// vpPair creates a connected pair; fd side is non-blocking (the registered one).
func vpPair(network string) (fd, peer int, err error) {
	if network == "unix" {
		fds, e := syscall.Socketpair(syscall.AF_UNIX, syscall.SOCK_STREAM, 0)
		if e != nil {
			return -1, -1, e
		}
		syscall.SetNonblock(fds[0], true)
		return fds[0], fds[1], nil
	}
	ln, e := net.Listen("tcp", "127.0.0.1:0")
	if e != nil {
		return -1, -1, e
	}
	defer ln.Close()
	c, e := net.Dial("tcp", ln.Addr().String())
	if e != nil {
		return -1, -1, e
	}
	s, e := ln.Accept()
	if e != nil {
		c.Close()
		return -1, -1, e
	}
	fd, peer = vcStealFD(s), vcStealFD(c)
	syscall.SetNonblock(fd, true)
	return fd, peer, nil
}

func (d *vpDesc) history() []string {
	d.mu.Lock()
	defer d.mu.Unlock()
	if len(d.evs) > 40 {
		return append(append([]string{}, d.evs[:10]...), d.evs[len(d.evs)-30:]...)
	}
	return append([]string{}, d.evs...)
}

// judge checks the per-descriptor rules once the descriptor is quiescent.
func (d *vpDesc) judge(t *vcTrial, sent uint64, closedHow string, wantHup bool) {
	if b, _ := d.bad.Load().(string); b != "" {
		t.Violate("C11", "input_order", "%s; events %v", b, d.history())
		return
	}
	got := atomic.LoadUint64(&d.got)
	if got > sent {
		t.Violate("C11", "input_extra", "descriptor %d: %d input bytes delivered, the peer wrote %d", d.id, got, sent)
		return
	}
	hups := atomic.LoadInt32(&d.hups)
	if hups > 1 {
		t.Violate("C11", "hup_twice", "descriptor %d: hang-up reported %d times; events %v", d.id, hups, d.history())
		return
	}
	if hups == 1 && atomic.LoadInt32(&d.hupDet) < 1 {
		t.Violate("C11", "hup_before_detach", "descriptor %d: OnHup ran while the descriptor was still registered (detached=%d)", d.id, atomic.LoadInt32(&d.hupDet))
		return
	}
	if bad, why := vpDispatchAfterDetach(vcTraceSince(t.Mark), vcObjID(d.op)); bad {
		t.Violate("C11", "callback_after_detach", "descriptor %d: %s; events %v", d.id, why, d.history())
		return
	}
	// all input before the hang-up: the event list must not contain in:* after hup
	seenHup := false
	for _, e := range d.history() {
		if e == "hup" {
			seenHup = true
		} else if seenHup && len(e) > 3 && e[:3] == "in:" {
			t.Violate("C11", "input_after_hup", "descriptor %d: input delivered after the hang-up; events %v", d.id, d.history())
			return
		}
	}
	if wantHup && d.selfDetachAt == 0 {
		if hups != 1 {
			t.Violate("C11", "hup_missing", "descriptor %d: the peer %s but no hang-up was reported (input %d of %d); events %v", d.id, closedHow, got, sent, d.history())
			return
		}
		if (closedHow == "fin" || closedHow == "unread-close") && got != sent {
			t.Violate("C11", "input_lost_at_hup", "descriptor %d: the peer wrote %d bytes and closed with FIN; %d were delivered before the hang-up; events %v", d.id, sent, got, d.history())
			return
		}
	}
}

// ------------------------------------------------------------------ (a) real kernel trials

func vpRunKernel(t *vcTrial, ndesc int, network string) {
	r := t.R
	t.P("variant", "kernel")
	t.P("descriptors", ndesc)
	t.P("network", network)
	audit := vcStartAudit()
	mark := vcTraceMark()
	pl, err := openPoll()
	if err != nil {
		t.Inconclusive("openPoll: %v", err)
		return
	}
	dp := pl.(*defaultPoll)
	waitErr := make(chan error, 1)
	go func() { waitErr <- pl.Wait() }()
	if r.chance(40) {
		t.Plan = &vcPlan{Mode: vcModeJitter, Seed: r.next(), JitterPM: r.rng(20, 300), MaxSleep: time.Duration(r.rng(1, 200)) * time.Microsecond}
		vcSetPlan(t.Plan)
		defer vcSetPlan(nil)
	}
	type script struct {
		d      *vpDesc
		sent   uint64
		how    string // fin | rst | open | shutwr | ioerr
		outReq int
		fault  *vcFaultRule // ioerr: the poller's (Skip+1)-th readv on this descriptor fails hard
	}
	var scripts []*script
	faults := &vcFaultPlan{Seed: r.next()}
	defer vcSetFaults(nil)
	closeAll := func() {
		for _, s := range scripts {
			if s.d.fd >= 0 {
				syscall.Close(s.d.fd)
			}
			if s.d.peer >= 0 {
				syscall.Close(s.d.peer)
			}
		}
	}
	defer closeAll()
	batch := ndesc > 100
	for i := 0; i < ndesc; i++ {
		fd, peer, err := vpPair(network)
		if err != nil {
			t.Inconclusive("pair: %v", err)
			return
		}
		d := &vpDesc{id: i, fd: fd, peer: peer, flavour: r.intn(2), seed: r.next(), outSeed: r.next()}
		s := &script{d: d, how: []string{"fin", "fin", "rst", "open", "shutwr"}[r.intn(5)]}
		if network == "unix" && s.how == "rst" {
			// a unix stream peer that closes while it still holds unread bytes from us "resets" our end
			// (ERR|HUP|RDHUP next to IN) - but unlike TCP nothing of what it had sent is discarded:
			// every byte is readable and must be delivered before the hang-up
			s.how = "unread-close"
		}
		if !batch && r.chance(12) {
			// the read itself fails (reset/timeout/ENOMEM reported by readv): hang-up exactly once,
			// after deregistering, input delivered before it in order
			s.how = "ioerr"
			d.flavour = 1
			s.fault = &vcFaultRule{Site: vfltReadv, Errno: []syscall.Errno{syscall.ECONNRESET, syscall.ETIMEDOUT, syscall.ENOMEM, syscall.EIO}[r.intn(4)], FD: fd, Skip: int64(r.intn(3)), Count: 1}
			faults.Rules = append(faults.Rules, s.fault)
		}
		if !batch && r.chance(30) && s.how != "ioerr" {
			d.outLeft = r.rng(1, 200000)
			s.outReq = d.outLeft
			vcSetBuf(fd, 4096, 0)
		}
		if !batch && r.chance(10) && s.how != "rst" {
			d.selfDetachAt = uint64(r.rng(1, 3000))
		}
		d.install(pl)
		scripts = append(scripts, s)
	}
	// in a large batch everything becomes ready before registration: one epoll_wait returns them all
	var wg sync.WaitGroup
	drive := func(s *script, sr *vfRng) {
		defer wg.Done()
		d := s.d
		nw := sr.rng(0, 6)
		if batch {
			nw = sr.rng(1, 2)
		}
		for k := 0; k < nw; k++ {
			n := sr.rng(1, 5000)
			if batch {
				n = sr.rng(1, 200)
			}
			b := make([]byte, n)
			vfFill(b, d.seed, s.sent)
			m, err := syscall.Write(d.peer, b)
			if m > 0 {
				s.sent += uint64(m)
			}
			if err != nil {
				break
			}
			if !batch && sr.chance(40) {
				time.Sleep(time.Duration(sr.intn(300)) * time.Microsecond)
			}
		}
		// outbound: the peer drains what the poller sends
		if s.outReq > 0 {
			got := 0
			buf := make([]byte, 8192)
			dl := time.Now().Add(8 * time.Second)
			for got < s.outReq && time.Now().Before(dl) {
				fds := []pollFd{{fd: int32(d.peer), events: 1}}
				if k, _ := sysPoll(fds, 20); k <= 0 {
					continue
				}
				n, err := syscall.Read(d.peer, buf)
				if n > 0 {
					if i := vfCheck(buf[:n], d.outSeed, uint64(got)); i >= 0 && d.bad.Load() == nil {
						d.bad.Store(fmt.Sprintf("descriptor %d: output byte at stream position %d differs at the peer (OutputAck count wrong?)", d.id, got+i))
					}
					got += n
				}
				if err != nil && err != syscall.EAGAIN && err != syscall.EINTR {
					break
				}
				if n == 0 && err == nil {
					break
				}
			}
			d.note(fmt.Sprintf("peer-read:%d", got))
			if got != s.outReq && d.selfDetachAt == 0 {
				d.bad.Store(fmt.Sprintf("descriptor %d: %d output bytes were requested, the poller's OutputAck counts add up to %d, the peer received %d", d.id, s.outReq, atomic.LoadUint64(&d.outAcked), got))
			}
		}
		switch s.how {
		case "unread-close":
			syscall.Write(d.fd, []byte("bytes the peer never reads")) // from our side, outside the poller
			big := make([]byte, sr.rng(9000, 120000))
			vfFill(big, d.seed, s.sent)
			syscall.SetNonblock(d.peer, true)
			if m, _ := syscall.Write(d.peer, big); m > 0 {
				s.sent += uint64(m)
			}
			syscall.Close(d.peer)
			d.peer = -1
		case "ioerr":
			// keep the descriptor readable until the failing read has happened
			for k := 0; k < 200 && atomic.LoadInt64(&s.fault.fired) == 0; k++ {
				b := make([]byte, 1)
				vfFill(b, d.seed, s.sent)
				if m, _ := syscall.Write(d.peer, b); m > 0 {
					s.sent += uint64(m)
				}
				time.Sleep(200 * time.Microsecond)
			}
		case "fin":
			syscall.Close(d.peer)
			d.peer = -1
		case "shutwr":
			syscall.Shutdown(d.peer, syscall.SHUT_WR)
		case "rst":
			syscall.SetsockoptLinger(d.peer, syscall.SOL_SOCKET, syscall.SO_LINGER, &syscall.Linger{Onoff: 1, Linger: 0})
			syscall.Close(d.peer)
			d.peer = -1
		}
	}
	if batch {
		for _, s := range scripts {
			wg.Add(1)
			drive(s, vfNewRng(r.next()))
		}
	}
	if len(faults.Rules) > 0 {
		vcSetFaults(faults)
	}
	for _, s := range scripts {
		ev := PollReadable
		if err := s.d.op.Control(ev); err != nil {
			t.Inconclusive("register: %v", err)
			return
		}
		if s.outReq > 0 {
			s.d.op.Control(PollR2RW)
		}
	}
	if !batch {
		for _, s := range scripts {
			wg.Add(1)
			go drive(s, vfNewRng(r.next()))
		}
	}
	wg.Wait()
	// ---- quiescence: every descriptor reaches its terminal state (bounded progress)
	deadline := time.Now().Add(10 * time.Second)
	for _, s := range scripts {
		d := s.d
		wantHup := s.how == "fin" || s.how == "rst" || s.how == "unread-close" || s.how == "shutwr" || (s.how == "ioerr" && atomic.LoadInt64(&s.fault.fired) > 0)
		for time.Now().Before(deadline) {
			done := atomic.LoadUint64(&d.got) >= s.sent || s.how == "rst"
			_ = done
			if d.selfDetachAt != 0 {
				done = atomic.LoadInt32(&d.dead) != 0 || atomic.LoadUint64(&d.got) >= s.sent
			}
			if wantHup && d.selfDetachAt == 0 {
				done = atomic.LoadInt32(&d.hups) > 0
			}
			if done {
				break
			}
			time.Sleep(100 * time.Microsecond)
		}
	}
	time.Sleep(500 * time.Microsecond)
	// Trigger wakes a blocked loop; coalesced triggers never lose the last one
	tm := vcTraceMark()
	for i := 0; i < r.rng(1, 20); i++ {
		pl.Trigger()
	}
	if !vcWaitPoint(tm, vpPollWake, vcObjID(dp), 5*time.Second) {
		if vcRunnerProgress(5, 5*time.Second) {
			t.Violate("C11", "trigger_lost", "Trigger() returned but the blocked loop did not handle a wake-up within 5s")
		} else {
			t.Inconclusive("wake not seen, canary without progress")
		}
	}
	for _, s := range scripts {
		if t.Violated() {
			break
		}
		s.d.judge(t, s.sent, s.how, s.how == "fin" || s.how == "rst" || s.how == "unread-close" || s.how == "shutwr" || (s.how == "ioerr" && atomic.LoadInt64(&s.fault.fired) > 0))
		if s.how == "ioerr" {
			t.Stat("read_errors_injected", int(atomic.LoadInt64(&s.fault.fired)))
		}
	}
	vcSetFaults(nil)
	// ---- Close stops the loop and releases the poller's own descriptors
	for _, s := range scripts {
		if atomic.LoadInt32(&s.d.dead) == 0 {
			s.d.op.Control(PollDetach)
		}
		s.d.op.Free()
	}
	pl.Close()
	select {
	case err := <-waitErr:
		if err != nil {
			t.Violate("C11", "wait_error", "Wait returned %v after Close", err)
		}
	case <-time.After(5 * time.Second):
		if vcRunnerProgress(5, 5*time.Second) {
			t.Violate("C11", "close_not_stopping", "the loop did not stop within 5s after Close")
		} else {
			t.Inconclusive("loop did not stop, canary without progress")
		}
		return
	}
	time.Sleep(200 * time.Microsecond)
	nclosed := 0
	audit.mu.Lock()
	for _, e := range audit.fds {
		if e.Owner == vcObjID(dp) && e.Kind < 0 {
			nclosed++
		}
	}
	audit.mu.Unlock()
	if nclosed != 2 && !t.Violated() {
		t.Violate("C11", "poller_fds", "after Close the poller closed %d of its 2 descriptors", nclosed)
	}
	// coverage: which flag combinations did the kernel produce, how large were the batches
	flags := map[int]bool{}
	maxBatch := 0
	for _, e := range vcTraceSince(mark) {
		switch int(e.Point) {
		case vpPollEvent:
			flags[int(e.Arg)] = true
		case vpPollBatchBegin:
			if e.Obj == vcObjID(dp) && int(e.Arg) > maxBatch {
				maxBatch = int(e.Arg)
			}
		}
	}
	t.Stat("descriptors", ndesc)
	t.Stat("kernel_flag_combinations_seen", len(flags))
	if maxBatch > 128 {
		t.Stat("batches_beyond_128_events", 1)
	}
	var fl []int
	for f := range flags {
		fl = append(fl, f)
	}
	t.P("epoll_flag_values_seen", fl)
	t.P("largest_batch", maxBatch)
	t.Nontrivial = true
	t.Sig = fmt.Sprintf("kernel|%s|n=%d|flags=%d|big=%v", network, vmClassI(ndesc), len(flags), maxBatch > 128)
}

// ------------------------------------------------------------------ (b) synthetic dispatch grid

// vpRunGrid enumerates {IN,OUT,RDHUP,HUP,ERR} x descriptor state for one operator flavour
// completely, calling the poller's real handler on a poll whose loop is not running.
func vpRunGrid(t *vcTrial, flavour int) {
	t.P("variant", "synthetic-grid")
	t.P("flavour", flavour)
	states := []string{"idle", "pending", "eof", "pending+eof", "reset", "writefull"}
	cells, hupCells, batchCells, unstable := 0, 0, 0, 0
	for _, st := range states {
		for flags := 1; flags < 32; flags++ {
			if t.Violated() {
				return
			}
			var ev uint32
			if flags&1 != 0 {
				ev |= syscall.EPOLLIN
			}
			if flags&2 != 0 {
				ev |= syscall.EPOLLOUT
			}
			if flags&4 != 0 {
				ev |= syscall.EPOLLRDHUP
			}
			if flags&8 != 0 {
				ev |= syscall.EPOLLHUP
			}
			if flags&16 != 0 {
				ev |= syscall.EPOLLERR
			}
			cells++
			hup, alone := vpGridCell(t, flavour, st, ev, 0)
			if hup {
				hupCells++
			}
			if t.Violated() {
				return
			}
			// "any number of descriptors per batch": the same descriptor, state and event
			// preceded in the batch by 1..3 busy readable descriptors must be dispatched to
			// the same outcome. A difference counts only when it reproduces (both outcomes
			// stable over a second pair of runs), so kernel timing cannot raise it.
			npre := 1 + cells%3
			_, batched := vpGridCell(t, flavour, st, ev, npre)
			if t.Violated() {
				return
			}
			batchCells++
			if alone != batched {
				_, alone2 := vpGridCell(t, flavour, st, ev, 0)
				_, batched2 := vpGridCell(t, flavour, st, ev, npre)
				if t.Violated() {
					return
				}
				if alone2 == alone && batched2 == batched {
					t.Violate("C11", "batch_dependence", "flavour %d, state %s, events 0x%x: dispatched alone the outcome is {%s}, dispatched as event %d of a batch behind %d readable descriptors it is {%s} (reproduced twice)", flavour, st, ev, alone, npre+1, npre, batched)
					return
				}
				unstable++
			}
		}
	}
	t.Stat("grid_cells", cells)
	t.Stat("grid_cells_in_batches", batchCells)
	t.Stat("grid_cells_unstable", unstable)
	t.Stat("grid_cells_with_hup", hupCells)
	t.Nontrivial = true
	t.Sig = fmt.Sprintf("grid|flavour=%d", flavour)
	t.P("exhaustive", true)
}

func vpGridCell(t *vcTrial, flavour int, state string, ev uint32, npre int) (hup bool, outcome string) {
	network := "unix"
	if state == "reset" {
		network = "tcp"
	}
	fd, peer, err := vpPair(network)
	if err != nil {
		t.Inconclusive("pair: %v", err)
		return
	}
	defer func() {
		syscall.Close(fd)
		if peer >= 0 {
			syscall.Close(peer)
		}
	}()
	pl, err := openDefaultPoll()
	if err != nil {
		t.Inconclusive("openDefaultPoll: %v", err)
		return
	}
	defer func() {
		syscall.Close(pl.wop.FD)
		syscall.Close(pl.fd)
	}()
	pl.Reset(8, barriercap)
	// decoys: connection-style descriptors that have fresh input in every batch
	type decoy struct {
		d    *vpDesc
		sent uint64
	}
	var pre []*decoy
	for i := 0; i < npre; i++ {
		dfd, dpeer, err := vpPair("unix")
		if err != nil {
			t.Inconclusive("pair: %v", err)
			return
		}
		defer syscall.Close(dfd)
		defer syscall.Close(dpeer)
		dd := &vpDesc{id: 100 + i, fd: dfd, peer: dpeer, flavour: 1, seed: t.R.next(), outSeed: t.R.next()}
		dd.install(pl)
		if err := dd.op.Control(PollReadable); err != nil {
			t.Inconclusive("register: %v", err)
			return
		}
		pre = append(pre, &decoy{d: dd})
	}
	feed := func() {
		for _, q := range pre {
			b := make([]byte, 700)
			vfFill(b, q.d.seed, q.sent)
			if m, _ := syscall.Write(q.d.peer, b); m > 0 {
				q.sent += uint64(m)
			}
		}
	}
	d := &vpDesc{id: 0, fd: fd, peer: peer, flavour: flavour, seed: t.R.next(), outSeed: t.R.next()}
	d.install(pl)
	if err := d.op.Control(PollReadable); err != nil {
		t.Inconclusive("register: %v", err)
		return
	}
	sent := uint64(0)
	write := func(n int) {
		b := make([]byte, n)
		vfFill(b, d.seed, sent)
		m, _ := syscall.Write(peer, b)
		if m > 0 {
			sent += uint64(m)
		}
	}
	peerClosed := false
	switch state {
	case "pending":
		write(3000)
	case "eof":
		syscall.Close(peer)
		peer, peerClosed = -1, true
	case "pending+eof":
		write(5000)
		syscall.Close(peer)
		peer, peerClosed = -1, true
	case "reset":
		write(100)
		syscall.SetsockoptLinger(peer, syscall.SOL_SOCKET, syscall.SO_LINGER, &syscall.Linger{Onoff: 1, Linger: 0})
		syscall.Close(peer)
		peer, peerClosed = -1, true
		time.Sleep(2 * time.Millisecond)
	case "writefull":
		vcSetBuf(fd, 4096, 0)
		junk := make([]byte, 1<<20)
		for {
			if _, err := syscall.Write(fd, junk); err != nil {
				break
			}
		}
	}
	if ev&syscall.EPOLLOUT != 0 {
		d.outLeft = 1000
	}
	outReq := d.outLeft
	desc := fmt.Sprintf("flavour %d, state %s, events 0x%x", flavour, state, ev)
	if npre > 0 {
		desc += fmt.Sprintf(", event %d of its batch", npre+1)
	}
	dispatch := func() (pan interface{}) {
		defer func() { pan = recover() }()
		feed()
		e := make([]epollevent, npre+1)
		for i, q := range pre {
			e[i].events = syscall.EPOLLIN
			pl.setOperator(unsafe.Pointer(&e[i].data), q.d.op)
		}
		e[npre].events = ev
		pl.setOperator(unsafe.Pointer(&e[npre].data), d.op)
		pl.Handler(e)
		return nil
	}
	// level-triggered: the same event would be reported again while the state persists and the
	// descriptor is still registered
	for round := 0; round < 3 && atomic.LoadInt32(&d.dead) == 0; round++ {
		if p := dispatch(); p != nil {
			t.Violate("C11", "panic", "dispatch of %s panicked: %v", desc, p)
			return
		}
		// hang-ups are delivered by a separate goroutine
		for dl := time.Now().Add(50 * time.Millisecond); time.Now().Before(dl); {
			if atomic.LoadInt32(&d.hups) > 0 || atomic.LoadInt32(&d.op.detached) == 0 {
				break
			}
			time.Sleep(20 * time.Microsecond)
		}
		if atomic.LoadInt32(&d.op.detached) > 0 {
			// wait for the hang-up goroutine (bounded)
			for dl := time.Now().Add(2 * time.Second); atomic.LoadInt32(&d.hups) == 0 && time.Now().Before(dl); {
				time.Sleep(20 * time.Microsecond)
			}
			break
		}
	}
	time.Sleep(50 * time.Microsecond)
	hups := atomic.LoadInt32(&d.hups)
	hup = hups > 0
	outcome = fmt.Sprintf("hang-ups %d, deregistered %v, input bytes %d, output bytes %d", hups, atomic.LoadInt32(&d.op.detached) > 0, atomic.LoadUint64(&d.got), atomic.LoadUint64(&d.outAcked))
	for _, q := range pre {
		if b, _ := q.d.bad.Load().(string); b != "" {
			t.Violate("C11", "input_order", "%s (batch neighbour): %s", desc, b)
			return
		}
		if got := atomic.LoadUint64(&q.d.got); got != q.sent || atomic.LoadInt32(&q.d.hups) != 0 {
			t.Violate("C11", "batch_neighbour", "%s: an open readable descriptor earlier in the same batch got %d of %d bytes and %d hang-ups; events %v", desc, got, q.sent, atomic.LoadInt32(&q.d.hups), q.d.history())
			return
		}
		defer q.d.op.Control(PollDetach)
	}
	// ---- safety rules that hold for every cell
	if b, _ := d.bad.Load().(string); b != "" {
		t.Violate("C11", "input_order", "%s: %s; events %v", desc, b, d.history())
		return
	}
	if got := atomic.LoadUint64(&d.got); got > sent {
		t.Violate("C11", "input_extra", "%s: %d input bytes delivered, %d were written", desc, got, sent)
		return
	}
	if hups > 1 {
		t.Violate("C11", "hup_twice", "%s: hang-up reported %d times; events %v", desc, hups, d.history())
		return
	}
	if hups == 1 && atomic.LoadInt32(&d.hupDet) < 1 {
		t.Violate("C11", "hup_before_detach", "%s: OnHup ran while the descriptor was still registered", desc)
		return
	}
	if atomic.LoadInt32(&d.op.detached) > 0 && hups == 0 {
		t.Violate("C11", "detach_without_hup", "%s: the poller deregistered the descriptor but never reported the hang-up; events %v", desc, d.history())
		return
	}
	// ---- rules for the cells the kernel can really produce
	in := ev&syscall.EPOLLIN != 0
	hupFlag := ev&(syscall.EPOLLHUP|syscall.EPOLLRDHUP) != 0
	errFlag := ev&syscall.EPOLLERR != 0
	if in && (state == "pending" || state == "pending+eof") {
		// readable bytes are delivered before any hang-up for that descriptor
		// (with a hang-up flag set the handler drains to end-of-stream before anything else, so an ERR
		// bit next to HUP|RDHUP changes nothing about that; ERR without a hang-up flag is left out)
		if hups == 1 && atomic.LoadUint64(&d.got) != sent && state == "pending+eof" && (!errFlag || hupFlag) {
			cause := "hang-up flags"
			h := d.history()
			for i, e := range h {
				if e == "hup" && i > 0 && len(h[i-1]) > 5 && h[i-1][:5] == "out:-" {
					cause = "a failed send in the OUT branch (the hang-up was raised by a failed send, readable input was not drained first)"
				}
			}
			t.Violate("C11", "input_lost_at_hup", "%s: hang-up reported with %d of %d readable bytes delivered, caused by %s; events %v", desc, atomic.LoadUint64(&d.got), sent, cause, h)
			return
		}
		if atomic.LoadUint64(&d.got) == 0 && !errFlag {
			t.Violate("C11", "input_not_delivered", "%s: IN was reported with bytes pending but no input callback delivered anything; events %v", desc, d.history())
			return
		}
	}
	if in && hupFlag && (state == "eof" || state == "pending+eof") && !errFlag && hups != 1 {
		t.Violate("C11", "hup_missing", "%s: end-of-stream with IN|HUP reported (up to three times) but no hang-up was delivered; events %v", desc, d.history())
		return
	}
	if state == "idle" && !hupFlag && !errFlag && hups != 0 {
		t.Violate("C11", "spurious_hup", "%s: a hang-up was reported for an open idle descriptor", desc)
		return
	}
	if errFlag && state == "idle" && !hupFlag && hups != 0 {
		// ERR with an empty error queue is "not a real error" (zero-copy completion notice)
		t.Violate("C11", "spurious_hup", "%s: ERR with an empty error queue led to a hang-up", desc)
		return
	}
	if ev&syscall.EPOLLOUT != 0 && !hupFlag && !errFlag && (state == "idle" || state == "pending") && !peerClosed {
		// writability is reported to the output callbacks with the byte count the kernel accepted
		acked := atomic.LoadUint64(&d.outAcked)
		buf := make([]byte, 4096)
		got := 0
		syscall.SetNonblock(peer, true)
		for {
			n, _ := syscall.Read(peer, buf)
			if n <= 0 {
				break
			}
			if i := vfCheck(buf[:n], d.outSeed, uint64(got)); i >= 0 {
				t.Violate("C11", "output_corrupt", "%s: output byte %d differs at the peer", desc, got+i)
				return
			}
			got += n
		}
		if uint64(got) != acked {
			t.Violate("C11", "output_count", "%s: OutputAck/OnWrite accounted %d bytes, the peer received %d (requested %d)", desc, acked, got, outReq)
			return
		}
		if acked == 0 {
			t.Violate("C11", "output_not_sent", "%s: OUT was reported on a writable descriptor but nothing was sent", desc)
			return
		}
	}
	if atomic.LoadInt32(&d.dead) == 0 {
		d.op.Control(PollDetach)
	}
	return hup, outcome
}

// ------------------------------------------------------------------ (c) queued hang-ups vs. slot re-use

// vpRunHupReuse: hang-ups are collected per batch and run one after the other on a separate
// goroutine. While a slow OnHup keeps that goroutine busy, the owners of the descriptors queued
// behind it release their slots (detach + Free), the poller finishes another batch (the slots
// return to the free list) and new, healthy descriptors are registered on the same poller and
// get those slots. A queued hang-up must stay the old descriptor's: the new ones are open and
// idle and must never see OnHup.
func vpRunHupReuse(t *vcTrial) {
	r := t.R
	t.P("variant", "queued-hangup-slot-reuse")
	pl, err := openPoll()
	if err != nil {
		t.Inconclusive("openPoll: %v", err)
		return
	}
	waitErr := make(chan error, 1)
	go func() { waitErr <- pl.Wait() }()
	mark := vcTraceMark()
	var all []*vpDesc
	defer func() {
		for _, d := range all {
			if d.fd >= 0 {
				syscall.Close(d.fd)
			}
			if d.peer >= 0 {
				syscall.Close(d.peer)
			}
		}
		pl.Close()
		select {
		case <-waitErr:
		case <-time.After(5 * time.Second):
		}
	}()
	mk := func(id int, delay time.Duration) *vpDesc {
		fd, peer, err := vpPair("unix")
		if err != nil {
			return nil
		}
		d := &vpDesc{id: id, fd: fd, peer: peer, flavour: r.intn(2), seed: r.next(), outSeed: r.next(), hupDelay: delay}
		d.install(pl)
		all = append(all, d)
		if err := d.op.Control(PollReadable); err != nil {
			return nil
		}
		return d
	}
	nslow, nvict := r.rng(1, 3), r.rng(1, 5)
	var slow, vict []*vpDesc
	for i := 0; i < nslow; i++ {
		d := mk(i, time.Duration(r.rng(5, 30))*time.Millisecond)
		if d == nil {
			t.Inconclusive("setup")
			return
		}
		slow = append(slow, d)
	}
	for i := 0; i < nvict; i++ {
		d := mk(100+i, 0)
		if d == nil {
			t.Inconclusive("setup")
			return
		}
		vict = append(vict, d)
	}
	// all peers hang up back to back: one batch (or two adjacent ones) carries all the hang-ups
	for _, d := range append(append([]*vpDesc{}, slow...), vict...) {
		syscall.Close(d.peer)
		d.peer = -1
	}
	for dl := time.Now().Add(time.Second); time.Now().Before(dl); {
		started := false
		for _, d := range slow {
			if atomic.LoadInt32(&d.hupStarted) != 0 {
				started = true
			}
		}
		if started {
			break
		}
		time.Sleep(20 * time.Microsecond)
	}
	// the owners of the descriptors whose hang-up is still queued release them
	freed := map[*FDOperator]bool{}
	queued := 0
	for _, d := range vict {
		if atomic.LoadInt32(&d.hupStarted) == 0 && atomic.LoadInt32(&d.op.detached) > 0 {
			queued++
		}
		d.op.Control(PollDetach)
		d.op.Free()
		freed[d.op] = true
	}
	// another poller iteration returns the slots to the free list
	pl.Trigger()
	for _, d := range vict {
		vcWaitPoint(mark, vpOpFreeSplice, vcObjID(d.op), 200*time.Millisecond)
	}
	// healthy newcomers on the same poller
	var fresh []*vpDesc
	reused := 0
	for i := 0; i < nvict+2; i++ {
		d := mk(200+i, 0)
		if d == nil {
			t.Inconclusive("setup of a new descriptor")
			return
		}
		if freed[d.op] {
			reused++
		}
		fresh = append(fresh, d)
	}
	// let every queued hang-up run
	for dl := time.Now().Add(5 * time.Second); time.Now().Before(dl); {
		done := true
		for _, d := range slow {
			if atomic.LoadInt32(&d.hups) == 0 {
				done = false
			}
		}
		if done {
			break
		}
		time.Sleep(100 * time.Microsecond)
	}
	time.Sleep(time.Duration(r.rng(1, 5)) * time.Millisecond)
	for _, d := range fresh {
		if h := atomic.LoadInt32(&d.hups); h != 0 {
			t.Violate("C11", "spurious_hup", "a new, open and idle descriptor (slot re-used from a released one: %v) got %d hang-up report(s): a hang-up queued for the previous owner of its poller slot was delivered to it (slow hang-ups ahead in the queue: %d, descriptors released while queued: %d)", freed[d.op], h, nslow, queued)
			return
		}
	}
	for _, d := range vict {
		if h := atomic.LoadInt32(&d.hups); h > 1 {
			t.Violate("C11", "hup_twice", "a descriptor released while its hang-up was queued got %d hang-up reports", h)
			return
		}
	}
	// the newcomers are served
	for _, d := range fresh {
		b := make([]byte, 64)
		vfFill(b, d.seed, 0)
		syscall.Write(d.peer, b)
	}
	for dl := time.Now().Add(3 * time.Second); time.Now().Before(dl); {
		ok := true
		for _, d := range fresh {
			if atomic.LoadUint64(&d.got) < 64 {
				ok = false
			}
		}
		if ok {
			break
		}
		time.Sleep(100 * time.Microsecond)
	}
	for _, d := range fresh {
		if b, _ := d.bad.Load().(string); b != "" {
			t.Violate("C11", "input_order", "new descriptor after slot re-use: %s", b)
			return
		}
		if atomic.LoadUint64(&d.got) < 64 && vcRunnerProgress(5, 5*time.Second) {
			t.Violate("C11", "input_not_delivered", "a new descriptor registered on a re-used slot (%v) got %d of 64 readable bytes within 3s; hang-ups %d", freed[d.op], atomic.LoadUint64(&d.got), atomic.LoadInt32(&d.hups))
			return
		}
	}
	for _, d := range fresh {
		d.op.Control(PollDetach)
		d.op.Free()
	}
	for _, d := range slow {
		d.op.Free()
	}
	t.Stat("hup_reuse_trials", 1)
	t.Stat("slots_reused_after_release", reused)
	t.Stat("released_while_hangup_queued", queued)
	t.Nontrivial = reused > 0 && queued > 0
	t.Sig = fmt.Sprintf("hupreuse|slow=%d|vict=%d|reused=%v|queued=%v", nslow, nvict, reused > 0, queued > 0)
}

// ------------------------------------------------------------------ (d) Trigger under concurrency

// vpRunTriggerBurst: "Trigger wakes a blocked loop" after bursts of concurrent Trigger calls that
// race with a wake-up already in progress. Triggers may be coalesced, but once the callers are
// quiet and the loop is blocked again a single Trigger must wake it - the flag that suppresses
// redundant eventfd writes may not stay set with nothing to read.
func vpRunTriggerBurst(t *vcTrial) {
	r := t.R
	t.P("variant", "trigger-burst")
	pl, err := openPoll()
	if err != nil {
		t.Inconclusive("openPoll: %v", err)
		return
	}
	dp := pl.(*defaultPoll)
	waitErr := make(chan error, 1)
	go func() { waitErr <- pl.Wait() }()
	defer func() {
		pl.Close()
		select {
		case <-waitErr:
		case <-time.After(5 * time.Second):
		}
	}()
	rounds := r.rng(10, 40)
	wakes := 0
	for round := 0; round < rounds; round++ {
		n := r.rng(2, 6)
		stop := int32(0)
		roundMark := vcTraceMark()
		var wg sync.WaitGroup
		for i := 0; i < n; i++ {
			wg.Add(1)
			go func() {
				defer wg.Done()
				for atomic.LoadInt32(&stop) == 0 {
					pl.Trigger()
				}
			}()
		}
		time.Sleep(time.Duration(r.rng(200, 4000)) * time.Microsecond)
		atomic.StoreInt32(&stop, 1)
		wg.Wait()
		// "a blocked loop": wait until the wake-ups of the burst are completely handled - nothing is
		// pending on the wake-up descriptor and the batch that handled the last wake-up has ended (a
		// Trigger that lands between the loop's eventfd read and its clearing of the flag coincides
		// with a wake-up in progress, it is not lost). The flag itself is not consulted: whether it
		// is consistent with the descriptor is what the single Trigger below finds out.
		quiet := false
		for dl := time.Now().Add(3 * time.Second); time.Now().Before(dl); {
			if k, _ := sysPoll([]pollFd{{fd: int32(dp.wop.FD), events: 1}}, 0); k == 0 { // nothing pending on the wake-up descriptor
				var lastWake, lastEnd uint64
				for _, e := range vcTraceSince(roundMark) {
					if e.Obj != vcObjID(dp) {
						continue
					}
					switch int(e.Point) {
					case vpPollWake:
						lastWake = e.Seq
					case vpPollBatchEnd:
						lastEnd = e.Seq
					}
				}
				if k, _ := sysPoll([]pollFd{{fd: int32(dp.wop.FD), events: 1}}, 0); lastEnd > lastWake && k == 0 {
					quiet = true
					break
				}
			}
			time.Sleep(50 * time.Microsecond)
		}
		if !quiet {
			t.Inconclusive("the loop did not become quiet after a trigger burst")
			return
		}
		time.Sleep(time.Duration(r.rng(0, 300)) * time.Microsecond)
		m := vcTraceMark()
		pl.Trigger()
		if !vcWaitPoint(m, vpPollWake, vcObjID(dp), 3*time.Second) {
			if vcRunnerProgress(5, 5*time.Second) {
				t.Violate("C11", "trigger_lost", "round %d: after a burst of concurrent Trigger calls from %d goroutines had ended, a single Trigger() returned but the blocked loop handled no wake-up within 3s (trigger flag = %d)", round, n, atomic.LoadUint32(&dp.trigger))
			} else {
				t.Inconclusive("wake not seen, canary without progress")
			}
			return
		}
		wakes++
	}
	t.Stat("trigger_burst_rounds", rounds)
	t.Stat("single_triggers_woken", wakes)
	t.Nontrivial = true
	t.Sig = fmt.Sprintf("trigger-burst|rounds=%d", rounds/10)
}
