// C07/C12 directed stress: one reader consuming already buffered input while another goroutine
// closes the connection (inside the contract: one reader, any number of closers).
package netpoll

import (
	"fmt"
	"io"
	"sync"
	"syscall"
	"time"
)

// vcRunCloseRace returns a description of the first panic seen in the reader, or "".
func vcRunCloseRace(t *vcTrial, iterations int) (string, string) {
	r := t.R
	for it := 0; it < iterations; it++ {
		fds, err := syscall.Socketpair(syscall.AF_UNIX, syscall.SOCK_STREAM, 0)
		if err != nil {
			return "", ""
		}
		c, err := NewFDConnection(fds[0])
		if err != nil {
			syscall.Close(fds[0])
			syscall.Close(fds[1])
			return "", ""
		}
		n := r.rng(1, 20000)
		buf := make([]byte, n)
		vcFDWriter(fds[1]).Write(buf)
		in := vcInner(c)
		for dl := time.Now().Add(time.Second); in.inputBuffer.Len() < n && time.Now().Before(dl); {
			time.Sleep(20 * time.Microsecond)
		}
		var wg sync.WaitGroup
		var pan interface{}
		var st string
		op := r.intn(4)
		chunk := r.rng(1, 64)
		wg.Add(1)
		go func() {
			defer wg.Done()
			defer func() {
				if p := recover(); p != nil {
					pan, st = p, vfStack()
				}
			}()
			p := make([]byte, chunk)
			for i := 0; i < 100000; i++ {
				var err error
				switch op {
				case 0:
					_, err = c.(io.Reader).Read(p)
				case 1:
					_, err = c.Reader().Next(chunk)
				case 2:
					_, err = c.Reader().ReadBinary(chunk)
				default:
					err = c.Reader().Skip(chunk)
				}
				if err != nil {
					return
				}
				if i%8 == 0 {
					c.Reader().Release()
				}
			}
		}()
		time.Sleep(time.Duration(r.intn(200)) * time.Microsecond)
		c.Close()
		wg.Wait()
		syscall.Close(fds[1])
		if pan != nil {
			return fmt.Sprintf("iteration %d: reader op %d (chunk %d of %d buffered bytes) panicked while another goroutine called Close: %v", it, op, chunk, n, pan), st
		}
	}
	return "", ""
}
