// Position-keyed stream writer/reader used by every byte-stream oracle (C04, C06-C08, C10...).
// The stream of a connection is PRF(seed, position): the sender writes consecutive positions
// with a random mix of Writer methods, the receiver checks every byte it obtains against its
// own position counter (O(1) state, any loss/duplication/reordering shows at the first byte).
package netpoll

import (
	"errors"
	"fmt"
	"io"
	"time"
)

type vcStreamWriter struct {
	C       Connection
	Seed    uint64
	Pos     uint64 // next stream position to submit
	Flushed uint64 // positions covered by a Flush/Write that returned nil
	R       *vfRng
	epochWB bool
	epochWD bool
	Err     error // first write error (the guarantee ends there)
	Mix     map[string]int
	MaxMsg  int
	// NoSelfFlush: never use the patterns that flush by themselves (Append+Flush, Write)
	NoSelfFlush bool
}

func (w *vcStreamWriter) note(k string) {
	if w.Mix == nil {
		w.Mix = map[string]int{}
	}
	w.Mix[k]++
}

func (w *vcStreamWriter) chunk(n int) []byte {
	p := make([]byte, n)
	vfFill(p, w.Seed, w.Pos)
	w.Pos += uint64(n)
	return p
}

func (w *vcStreamWriter) size(limit int) int {
	r := w.R
	max := w.MaxMsg
	if max <= 0 {
		max = 64 << 10
	}
	var n int
	switch r.intn(10) {
	case 0:
		n = 1
	case 1:
		n = r.rng(4095, 4097)
	case 2:
		n = r.rng(4097, 16<<10)
	case 3:
		n = r.rng(1, max)
	case 4:
		n = r.rng(8191, 8193)
	default:
		n = r.rng(1, 512)
	}
	if n > limit {
		n = limit
	}
	if n < 1 {
		n = 1
	}
	return n
}

// Step submits between 1 and limit more bytes with one randomly chosen Writer pattern and
// flushes with probability flushPct. It returns the number of bytes submitted.
func (w *vcStreamWriter) Step(limit int, flushPct int) int {
	if w.Err != nil || limit <= 0 {
		return 0
	}
	r := w.R
	wr := w.C.Writer()
	start := w.Pos
	n := w.size(limit)
	flushed := false
	pat := r.intn(12)
	if w.NoSelfFlush && (pat == 7 || pat == 8) {
		pat = 0
	}
	switch pat {
	case 0, 1:
		buf, err := wr.Malloc(n)
		if err != nil {
			w.Err = err
			return 0
		}
		vfFill(buf, w.Seed, w.Pos)
		w.Pos += uint64(n)
		w.note("Malloc")
	case 2:
		if w.epochWD {
			return w.Step(limit, flushPct)
		}
		if _, err := wr.WriteBinary(w.chunk(n)); err != nil {
			w.Err = err
			return 0
		}
		w.epochWB = true
		w.note("WriteBinary")
	case 3:
		if w.epochWD {
			return w.Step(limit, flushPct)
		}
		if _, err := wr.WriteString(string(w.chunk(n))); err != nil {
			w.Err = err
			return 0
		}
		w.epochWB = true
		w.note("WriteString")
	case 11:
		// a burst of many tiny zero-copy pieces: more output nodes than one sendmsg takes vectors
		// (32), while the socket has room for all of them
		if w.epochWB {
			return w.Step(limit, flushPct)
		}
		k := r.rng(33, 90)
		for i := 0; i < k && int(w.Pos-start) < limit; i++ {
			m := vcMinInt(r.rng(1, 48), limit-int(w.Pos-start))
			if err := wr.WriteDirect(w.chunk(m), 0); err != nil {
				w.Err = err
				return int(w.Pos - start)
			}
		}
		w.epochWD = true
		w.note("WriteDirect-burst")
	case 4:
		k := vcMinInt(n, 1+r.intn(8))
		for i := 0; i < k; i++ {
			if err := wr.WriteByte(vfByteAt(w.Seed, w.Pos)); err != nil {
				w.Err = err
				return 0
			}
			w.Pos++
		}
		w.note("WriteByte")
	case 5:
		// Malloc(a+b); WriteDirect(p, b): stream order is buf[:a] p buf[a:]
		if w.epochWB || n < 3 {
			return w.Step(limit, flushPct)
		}
		a := r.rng(0, n/3)
		b := r.rng(0, n/3)
		pl := n - a - b
		if pl < 1 {
			pl, b = 1, 0
			a = n - 1
		}
		var buf []byte
		if a+b > 0 {
			var err error
			buf, err = wr.Malloc(a + b)
			if err != nil {
				w.Err = err
				return 0
			}
			vfFill(buf[:a], w.Seed, w.Pos)
		}
		w.Pos += uint64(a)
		p := w.chunk(pl)
		if b > 0 {
			vfFill(buf[a:], w.Seed, w.Pos)
			w.Pos += uint64(b)
		}
		if err := wr.WriteDirect(p, b); err != nil {
			w.Err = err
			return 0
		}
		w.epochWD = true
		w.note("WriteDirect")
	case 6:
		// Malloc more than needed, keep the first n with MallocAck
		extra := r.rng(1, 300)
		before := wr.MallocLen()
		buf, err := wr.Malloc(n + extra)
		if err != nil {
			w.Err = err
			return 0
		}
		vfFill(buf[:n], w.Seed, w.Pos)
		w.Pos += uint64(n)
		if err := wr.MallocAck(before + n); err != nil {
			w.Err = err
			return 0
		}
		w.note("MallocAck")
	case 7:
		// Append a pre-filled buffer: only with nothing pending, flushed right away
		if wr.MallocLen() != 0 {
			return w.Step(limit, flushPct)
		}
		lb := NewLinkBuffer(r.rng(0, 4096))
		k := r.rng(1, 3)
		left := n
		for i := 0; i < k && left > 0; i++ {
			m := left
			if i < k-1 {
				m = r.rng(1, left)
			}
			b, _ := lb.Malloc(m)
			vfFill(b, w.Seed, w.Pos)
			w.Pos += uint64(m)
			left -= m
		}
		lb.Flush()
		if err := wr.Append(lb); err != nil {
			w.Err = err
			return 0
		}
		w.note("Append")
		if err := wr.Flush(); err != nil {
			w.Err = err
			return int(w.Pos - start)
		}
		flushed = true
	case 8:
		// net.Conn style Write: submits and flushes by itself
		if wr.MallocLen() != 0 {
			return w.Step(limit, flushPct)
		}
		p := w.chunk(n)
		m, err := w.C.Write(p)
		w.note("Write")
		if err != nil {
			w.Err = err
			_ = m
			return int(w.Pos - start)
		}
		flushed = true
	default:
		buf, err := wr.Malloc(n)
		if err != nil {
			w.Err = err
			return 0
		}
		vfFill(buf, w.Seed, w.Pos)
		w.Pos += uint64(n)
		w.note("Malloc")
	}
	if !flushed && r.chance(flushPct) {
		w.Flush()
	} else if flushed {
		w.Flushed = w.Pos
		w.epochWB, w.epochWD = false, false
	}
	return int(w.Pos - start)
}

func (w *vcStreamWriter) Flush() error {
	if w.Err != nil {
		return w.Err
	}
	if err := w.C.Writer().Flush(); err != nil {
		w.Err = err
		return err
	}
	w.Flushed = w.Pos
	w.epochWB, w.epochWD = false, false
	w.note("Flush")
	return nil
}

// ------------------------------------------------------------------ reader

type vcStreamReader struct {
	Rd       Reader
	IO       io.Reader // connection.Read
	Seed     uint64
	Pos      uint64 // next expected stream position
	Total    uint64 // 0 = unknown/unbounded
	R        *vfRng
	Mix      map[string]int
	Bad      string // first byte mismatch
	MultiN   int
	sinceRel int
}

func (rd *vcStreamReader) note(k string) {
	if rd.Mix == nil {
		rd.Mix = map[string]int{}
	}
	rd.Mix[k]++
}

func (rd *vcStreamReader) verify(op string, p []byte) bool {
	if i := vfCheck(p, rd.Seed, rd.Pos); i >= 0 {
		if rd.Bad == "" {
			rd.Bad = fmt.Sprintf("%s returned %d bytes for stream position %d: byte %d (position %d) is 0x%02x, the sender wrote 0x%02x", op, len(p), rd.Pos, i, rd.Pos+uint64(i), p[i], vfByteAt(rd.Seed, rd.Pos+uint64(i)))
		}
		return false
	}
	return true
}

// untilTarget picks a delimiter that occurs within the next max bytes of the stream and
// returns it with the length of the line Until must return.
func (rd *vcStreamReader) untilTarget(max int) (byte, int) {
	k := rd.R.intn(max)
	d := vfByteAt(rd.Seed, rd.Pos+uint64(k))
	for i := 0; i <= k; i++ {
		if vfByteAt(rd.Seed, rd.Pos+uint64(i)) == d {
			return d, i + 1
		}
	}
	return d, k + 1
}

// Step performs one read operation of at most limit bytes (a blocking read when fewer are
// buffered). It returns the bytes consumed and the error of the Reader call.
func (rd *vcStreamReader) Step(limit int) (int, error) {
	r := rd.R
	if limit <= 0 {
		return 0, nil
	}
	n := 1
	switch r.intn(8) {
	case 0:
		n = 1
	case 1:
		n = r.rng(1, 16)
	case 2:
		n = r.rng(4095, 4097)
	case 3:
		n = r.rng(1, 64<<10)
	case 4:
		if l := rd.Rd.Len(); l > 0 {
			n = r.rng(1, l) // exactly what is buffered or less: never blocks
		}
	default:
		n = r.rng(1, 2048)
	}
	if n > limit {
		n = limit
	}
	var err error
	consumed := 0
	switch r.intn(15) {
	case 14:
		// Peek across nodes, consume a little through every consuming call in turn, Peek again
		// (shorter than the first): the second Peek must start at the new position
		big := vcMinInt(limit, r.rng(8200, 40000))
		var p []byte
		p, err = rd.Rd.Peek(big)
		if err != nil {
			break
		}
		rd.verify("Peek", p)
		k := vcMinInt(r.rng(1, 64), big-1)
		switch r.intn(8) {
		case 4:
			var b byte
			b, err = rd.Rd.ReadByte()
			if err == nil {
				rd.verify("ReadByte", []byte{b})
				consumed = 1
			}
		case 5:
			var q string
			q, err = rd.Rd.ReadString(k)
			if err == nil {
				rd.verify("ReadString", []byte(q))
				consumed = k
			}
		case 6:
			d, want := rd.untilTarget(k)
			var q []byte
			q, err = rd.Rd.Until(d)
			if err == nil {
				if len(q) != want {
					rd.Bad = fmt.Sprintf("Until(0x%02x) after Peek returned %d bytes, the first occurrence is after %d", d, len(q), want)
				}
				rd.verify("Until", q)
				consumed = len(q)
			}
		case 7:
			var sl Reader
			sl, err = rd.Rd.Slice(k)
			if err == nil {
				var q []byte
				q, err = sl.Next(k)
				if err == nil {
					rd.verify("Slice.Next", q)
				}
				sl.Release()
				consumed = k
			}
		case 0:
			if rd.IO != nil {
				q := make([]byte, k)
				var m int
				m, err = rd.IO.Read(q)
				if m > 0 {
					rd.verify("Read", q[:m])
					consumed = m
				}
				break
			}
			fallthrough
		case 1:
			err = rd.Rd.Skip(k)
			if err == nil {
				consumed = k
			}
		case 2:
			var q []byte
			q, err = rd.Rd.ReadBinary(k)
			if err == nil {
				rd.verify("ReadBinary", q)
				consumed = k
			}
		default:
			var q []byte
			q, err = rd.Rd.Next(k)
			if err == nil {
				rd.verify("Next", q)
				consumed = k
			}
		}
		rd.Pos += uint64(consumed)
		if err == nil && big-consumed > 0 {
			var p2 []byte
			p2, err = rd.Rd.Peek(big - consumed)
			if err == nil {
				rd.verify("Peek(after partial consume)", p2)
			}
		}
		rd.Pos -= uint64(consumed) // added again below
		rd.note("Peek+consume+Peek")
	case 12, 13:
		// Peek alone: nothing is consumed, so a later read of any kind (and a later Peek) must
		// still start at the same position - a stale Peek cache shows up at the first byte
		var p []byte
		p, err = rd.Rd.Peek(n)
		if err == nil {
			if len(p) != n {
				rd.Bad = fmt.Sprintf("Peek(%d) returned %d bytes", n, len(p))
			}
			rd.verify("Peek", p)
		}
		rd.note("Peek")
	case 0, 1, 2:
		var p []byte
		p, err = rd.Rd.Next(n)
		if err == nil {
			if len(p) != n {
				rd.Bad = fmt.Sprintf("Next(%d) returned %d bytes", n, len(p))
			}
			rd.verify("Next", p)
			consumed = n
		}
		rd.note("Next")
	case 3:
		var p []byte
		p, err = rd.Rd.Peek(n)
		if err == nil {
			rd.verify("Peek", p)
			k := r.rng(1, n)
			err = rd.Rd.Skip(k)
			if err == nil {
				consumed = k
			}
		}
		rd.note("Peek+Skip")
	case 4:
		var p []byte
		p, err = rd.Rd.ReadBinary(n)
		if err == nil {
			rd.verify("ReadBinary", p)
			consumed = n
		}
		rd.note("ReadBinary")
	case 5:
		var s string
		s, err = rd.Rd.ReadString(n)
		if err == nil {
			rd.verify("ReadString", []byte(s))
			consumed = n
		}
		rd.note("ReadString")
	case 6:
		var b byte
		b, err = rd.Rd.ReadByte()
		if err == nil {
			rd.verify("ReadByte", []byte{b})
			consumed = 1
		}
		rd.note("ReadByte")
	case 7:
		d, want := rd.untilTarget(vcMinInt(limit, 3000))
		var p []byte
		p, err = rd.Rd.Until(d)
		if err == nil {
			if len(p) != want {
				if rd.Bad == "" {
					rd.Bad = fmt.Sprintf("Until(0x%02x) at position %d returned %d bytes, the delimiter first occurs after %d", d, rd.Pos, len(p), want)
				}
			}
			rd.verify("Until", p)
			consumed = len(p)
		} else if len(p) > 0 {
			// documented: on error Until returns all buffered data
			rd.verify("Until(err)", p)
			consumed = len(p)
		}
		rd.note("Until")
	case 8:
		var sr Reader
		sr, err = rd.Rd.Slice(n)
		if err == nil {
			var p []byte
			p, e2 := sr.Next(n)
			if e2 != nil || len(p) != n {
				rd.Bad = fmt.Sprintf("Slice(%d) reader: Next = %d bytes, %v", n, len(p), e2)
			}
			rd.verify("Slice", p)
			sr.Release()
			consumed = n
		}
		rd.note("Slice")
	case 9:
		if rd.IO != nil {
			p := make([]byte, n)
			var m int
			m, err = rd.IO.Read(p)
			if m > 0 {
				rd.verify("Read", p[:m])
				consumed = m
			}
			rd.note("Read")
			break
		}
		fallthrough
	default:
		err = rd.Rd.Skip(n)
		if err == nil {
			consumed = n // skipped bytes are not seen; position still advances
		}
		rd.note("Skip")
	}
	rd.Pos += uint64(consumed)
	rd.sinceRel++
	if r.chance(30) || rd.sinceRel > 20 {
		rd.Rd.Release()
		rd.sinceRel = 0
	}
	return consumed, err
}

// vcEOFish reports whether err is an acceptable end-of-stream error for "peer closed,
// nobody local called Close".
func vcEOFish(err error) bool { return err != nil && errors.Is(err, ErrEOF) }

func vcSleepRand(r *vfRng, maxUs int) {
	if maxUs <= 0 {
		return
	}
	time.Sleep(time.Duration(r.intn(maxUs)) * time.Microsecond)
}
