// C09: lifecycle callbacks run in the documented order.
package netpoll

import (
	"context"
	"fmt"
	"sync/atomic"
	"time"
)

func init() {
	vcScenarios["C09"] = vcScenC09
	vcDirected["C09"] = []vcScenario{
		// D9: the peer closes between the OnConnect task's IsActive check and its unlock(connecting)
		func(t *vcTrial) {
			vcRunC09(t, vc09Cfg{Network: "tcp", OnConnectUs: 0, PeerClose: "pause", Mode: vcModePause, P: vpOnConnectBeforeUnlock, Q: vpOnHupAfterDisconnect, SendFirst: false})
		},
		func(t *vcTrial) {
			vcRunC09(t, vc09Cfg{Network: "unix", OnConnectUs: 200, PeerClose: "pause", Mode: vcModePause, P: vpOnConnectBeforeUnlock, Q: vpOnHupAfterDisconnect, SendFirst: true})
		},
	}
}

type vc09Cfg struct {
	Network     string
	OnConnectUs int    // duration of the user's OnConnect
	PeerClose   string // never | before | during | after | random | pause (closed by the plan's OnPark)
	CloseIn     string // "", prepare, connect, request, disconnect: user Close inside that callback
	SendFirst   bool   // client sends data right after connecting
	NoOnConnect bool
	Mode        int
	P, Q        int
	RST         bool
}

var vc09P = []int{vpTaskStart, vpAfterOnConnect, vpOnConnectBeforeUnlock, vpOnConnectAfterUnlock, vpProcessStart, vpOnPrepareBeforeRegister, vpAcceptAfterInit, vpAcceptAfterStore, vpProcessBeforeUnlock, vpProcessAfterUnlock}
var vc09Q = []int{vpOnHupEnter, vpOnHupAfterCloseBy, vpOnHupAfterTrigger, vpOnDisconnectEnter, vpOnDisconnectLocked, vpOnDisconnectDeferred, vpOnHupAfterDisconnect, vpCloseCbLockFail, vpCloseCbBeforeRun, vpInputAckAfterBook, vpOnRequestDeferred}

func vcScenC09(t *vcTrial) {
	r := t.R
	cfg := vc09Cfg{Network: []string{"tcp", "unix"}[r.intn(2)]}
	cfg.OnConnectUs = []int{0, 0, 50, 500, 3000}[r.intn(5)]
	cfg.PeerClose = []string{"never", "before", "during", "after", "random", "random"}[r.intn(6)]
	if r.chance(20) {
		cfg.CloseIn = []string{"prepare", "connect", "request", "disconnect"}[r.intn(4)]
	}
	cfg.SendFirst = r.chance(60)
	cfg.NoOnConnect = r.chance(15)
	cfg.RST = r.chance(25)
	switch r.intn(3) {
	case 0:
		cfg.Mode = vcModeJitter
	case 1:
		cfg.Mode = vcModePause
		cfg.P = vc09P[r.intn(len(vc09P))]
		cfg.Q = vc09Q[r.intn(len(vc09Q))]
		if r.chance(50) {
			cfg.PeerClose = "pause" // the peer closes exactly while P is parked
		}
	}
	vcRunC09(t, cfg)
}

func vcRunC09(t *vcTrial, cfg vc09Cfg) {
	r := t.R
	t.P("cfg", fmt.Sprintf("%+v", cfg))
	t.P("P", vcPointName(cfg.P))
	t.P("Q", vcPointName(cfg.Q))
	inConnect := make(chan struct{}, 1)
	var userClosed int32 // the harness called Close on the server side connection
	var firstInputs int64
	so := vcSrvOpts{Network: cfg.Network, NCloseCb: 2}
	so.OnPrepare = func(rec *vcConnRec) {
		if cfg.CloseIn == "prepare" {
			atomic.StoreInt32(&userClosed, 1)
			rec.Conn.Close()
		}
	}
	if !cfg.NoOnConnect {
		so.OnConnect = func(ctx context.Context, rec *vcConnRec) {
			select {
			case inConnect <- struct{}{}:
			default:
			}
			if cfg.OnConnectUs > 0 {
				time.Sleep(time.Duration(cfg.OnConnectUs) * time.Microsecond)
			}
			if cfg.CloseIn == "connect" {
				atomic.StoreInt32(&userClosed, 1)
				rec.Conn.Close()
			}
		}
	}
	so.OnDisconnect = func(ctx context.Context, rec *vcConnRec) {
		if cfg.CloseIn == "disconnect" {
			atomic.StoreInt32(&userClosed, 1)
			rec.Conn.Close()
		}
	}
	so.OnRequest = func(ctx context.Context, rec *vcConnRec) error {
		c := rec.Conn
		c.Reader().Skip(c.Reader().Len())
		c.Reader().Release()
		if cfg.CloseIn == "request" {
			atomic.StoreInt32(&userClosed, 1)
			c.Close()
		}
		return nil
	}
	srv, err := vcStartServer(so)
	if err != nil {
		t.Inconclusive("server start: %v", err)
		return
	}
	defer srv.Stop(3 * time.Second)
	mark := vcTraceMark()
	// diagnosis: the connection's lifecycle state and close status at the moment the hang-up path
	// holds the connecting lock in onDisconnect
	var stAtLocked, clAtLocked int32 = -1, -1
	vcPointCallback.Store(func(id int, obj uintptr, arg int) {
		if id == vpOnDisconnectLocked {
			srv.recs.Range(func(k, v interface{}) bool {
				if rc := v.(*vcConnRec); rc.ID == obj {
					in := vcInner(rc.Conn)
					atomic.StoreInt32(&stAtLocked, int32(in.getState()))
					atomic.StoreInt32(&clAtLocked, in.status(closing))
				}
				return true
			})
		}
	})
	defer vcPointCallback.Store(func(id int, obj uintptr, arg int) {})
	defer func() {
		if t.Violated() {
			t.P("state_at_OnDisconnectLocked", atomic.LoadInt32(&stAtLocked))
			t.P("closing_at_OnDisconnectLocked", atomic.LoadInt32(&clAtLocked))
		}
	}()
	// the first `inputs` of the connection must come after OnPrepare finished: record the trace
	// position of the first InputAck per connection via the trace itself (checked below)
	_ = firstInputs

	var cliClosed int32
	cli, err := vcDialRaw(srv)
	if err != nil {
		t.Inconclusive("dial: %v", err)
		return
	}
	closePeer := func() {
		if atomic.CompareAndSwapInt32(&cliClosed, 0, 1) {
			if cfg.RST {
				vcRST(cli)
			} else {
				cli.Close()
			}
		}
	}
	defer closePeer()
	switch cfg.Mode {
	case vcModeJitter:
		t.Plan = &vcPlan{Mode: vcModeJitter, Seed: r.next(), JitterPM: r.rng(50, 400), MaxSleep: time.Duration(r.rng(1, 400)) * time.Microsecond}
	case vcModePause:
		t.Plan = &vcPlan{Mode: vcModePause, P: cfg.P, Q: cfg.Q, ArgQ: -1, Timeout: time.Duration(r.rng(5, 30)) * time.Millisecond}
		if cfg.PeerClose == "pause" {
			t.Plan.OnPark = closePeer
		}
	}
	vcSetPlan(t.Plan)
	defer vcSetPlan(nil)
	if cfg.SendFirst {
		cli.Write([]byte("first-request"))
	}
	switch cfg.PeerClose {
	case "before":
		closePeer()
	case "during":
		select {
		case <-inConnect:
		case <-time.After(300 * time.Millisecond):
		}
		time.Sleep(time.Duration(r.intn(cfg.OnConnectUs+1)) * time.Microsecond)
		closePeer()
	case "after":
		time.Sleep(time.Duration(cfg.OnConnectUs+r.intn(2000)) * time.Microsecond)
		closePeer()
	case "random":
		time.Sleep(time.Duration(r.intn(cfg.OnConnectUs+300)) * time.Microsecond)
		closePeer()
	}
	rec := srv.nextAccepted(3 * time.Second)
	if rec == nil {
		// legal: the peer closed before the accept; nothing to check
		t.Sig = "not-accepted"
		return
	}
	if cfg.PeerClose == "never" || cfg.PeerClose == "pause" {
		// give the plan a chance, then end the connection from the peer side
		time.Sleep(time.Duration(r.rng(500, 5000)) * time.Microsecond)
		if cfg.PeerClose == "pause" {
			vcWaitPoint(mark, cfg.P, rec.ID, 50*time.Millisecond)
			time.Sleep(time.Duration(r.rng(100, 2000)) * time.Microsecond)
		}
		closePeer()
	}
	// quiescence: the connection was closed by the peer (or by the user inside a callback); the
	// server side callbacks must complete by themselves (OnRequest handler is installed)
	if !rec.waitClosed(10 * time.Second) {
		c := vcInner(rec.Conn)
		if atomic.LoadInt32(&rec.depth) == 0 && c.isUnlock(processing) && !c.IsActive() {
			time.Sleep(300 * time.Millisecond)
			if rec.count(vcCbClose) == 0 && c.isUnlock(processing) {
				t.Violate("C09", "close_callbacks_missing", "peer closed, connection inactive, no task holds the processing lock, but the close callbacks never ran (history %v)", rec.history())
				return
			}
		}
		t.Inconclusive("close callbacks not seen within 10s (history %v)", rec.history())
		return
	}
	vcWaitPoint(mark, vpFinalizerAfterClose, rec.ID, 5*time.Second)
	// if the poller's hang-up path is in flight it must be allowed to finish (its OnDisconnect may
	// be late, which is then a finding, not a missing callback)
	hupStarted := false
	for _, e := range vcTraceSince(mark) {
		if e.Obj == rec.ID && int(e.Point) == vpOnHupAfterCloseBy {
			hupStarted = true
		}
	}
	vcSetPlan(nil)
	if hupStarted && !vcWaitPoint(mark, vpOnHupAfterDisconnect, rec.ID, 5*time.Second) {
		t.Inconclusive("the hang-up path did not finish within 5s")
		return
	}
	time.Sleep(300 * time.Microsecond)
	// ---- offline check of the callback history
	evs := rec.events()
	pos := func(kind int) (first, last int, n int) {
		first, last = -1, -1
		for i, e := range evs {
			if e.Kind == kind {
				if first < 0 {
					first = i
				}
				last = i
				n++
			}
		}
		return
	}
	_, prepEnd, _ := pos(vcCbPrepareEnd)
	_, _, nConStart := pos(vcCbConnectStart)
	_, conEnd, nConEnd := pos(vcCbConnectEnd)
	reqStart, _, _ := pos(vcCbRequestStart)
	disStart, _, nDis := pos(vcCbDisconnectStart)
	_, disEnd, _ := pos(vcCbDisconnectEnd)
	clsFirst, clsLast, _ := pos(vcCbClose)
	hist := rec.history()
	fail := func(kind, f string, a ...interface{}) {
		t.Violate("C09", kind, "%s (history %v)", fmt.Sprintf(f, a...), hist)
	}
	for i, e := range evs {
		if i < prepEnd && e.Kind != vcCbPrepareStart && e.Kind != vcCbPrepareEnd && !(e.Kind == vcCbClose && cfg.CloseIn == "prepare") {
			fail("before_prepare", "callback %s started before OnPrepare finished", vcCbNames[e.Kind])
		}
	}
	if nConStart > 1 || nConEnd > 1 {
		fail("onconnect_twice", "OnConnect ran %d times", nConStart)
	}
	if reqStart >= 0 && nConStart > 0 && (conEnd < 0 || reqStart < conEnd) {
		fail("request_before_connect", "OnRequest started before OnConnect finished")
	}
	if reqStart >= 0 && !cfg.NoOnConnect && nConStart == 0 {
		fail("request_before_connect", "OnRequest ran although OnConnect never did")
	}
	if nDis > 1 {
		fail("disconnect_twice", "OnDisconnect ran %d times", nDis)
	}
	if nDis == 1 && nConStart > 0 && (conEnd < 0 || disStart < conEnd) {
		fail("disconnect_before_connect", "OnDisconnect started before OnConnect finished")
	}
	if nDis == 1 && !cfg.NoOnConnect && nConStart == 0 {
		fail("disconnect_without_connect", "OnDisconnect ran although OnConnect never started")
	}
	// peer closed, the user never called Close, OnConnect has run (or none configured) => exactly once, before the close callbacks
	// "the peer closes a connection" = the poller's hang-up is what closed it (closeBy(poller) won, hook
	// OnHupAfterCloseBy); a user Close that comes later - inside any callback - changes nothing about
	// that. Where the user's Close won the race instead, OnDisconnect is not promised.
	peerWon := vcSeenSince(mark, vpOnHupAfterCloseBy, rec.ID)
	if peerWon && (cfg.NoOnConnect || nConStart == 1) && nDis != 1 {
		fail("disconnect_missing", "the peer closed a connection whose OnConnect has run (the poller's hang-up closed it; user Close called too: %v) but OnDisconnect ran %d times (lifecycle state now %d, at OnDisconnectLocked %d; 1 = connected, 2 = disconnected)", atomic.LoadInt32(&userClosed) != 0, nDis, vcInner(rec.Conn).getState(), atomic.LoadInt32(&stAtLocked))
	}
	if peerWon && atomic.LoadInt32(&userClosed) != 0 {
		t.Stat("peer_close_then_user_close", 1)
	}
	if nDis == 1 && clsFirst >= 0 {
		// a user Close inside OnDisconnect runs the close callbacks nested in it: then only the start counts
		late := disEnd > clsFirst
		if cfg.CloseIn == "disconnect" {
			late = disStart > clsFirst
		}
		if late {
			fail("disconnect_after_close", "OnDisconnect finished after the close callbacks started; the close callbacks were run by %s", vc09RunBy(vcTraceSince(mark), rec.ID))
		}
	}
	if clsLast >= 0 {
		for i := clsFirst; i < len(evs); i++ {
			k := evs[i].Kind
			if k != vcCbClose && (k == vcCbPrepareStart || k == vcCbConnectStart || k == vcCbRequestStart || k == vcCbDisconnectStart) && i > clsLast {
				fail("callback_after_close", "callback %s started after the close callbacks", vcCbNames[k])
			}
			if k != vcCbClose && i > clsFirst && i < clsLast {
				fail("callback_during_close", "callback %s interleaved with the close callbacks", vcCbNames[k])
			}
		}
	}
	if msg := rec.checkCloseCallbacks(); msg != "" {
		// exactly-once of the close callbacks is C05's business; here only "come last"
		t.Stat("c05_class_observations", 1)
		_ = msg
	}
	// OnPrepare finishes before the connection can receive events: no poller event for this
	// connection's operator before the OnPrepareBeforeRegister point
	tr := vcTraceSince(mark)
	reg := uint64(0)
	for _, e := range tr {
		if e.Obj == rec.ID && int(e.Point) == vpOnPrepareBeforeRegister {
			reg = e.Seq
			break
		}
	}
	for _, e := range tr {
		if e.Obj == rec.ID && reg != 0 && e.Seq < reg {
			switch int(e.Point) {
			case vpInputAckAfterBook, vpOnHupEnter, vpOnRequestEnter, vpTaskStart:
				fail("event_before_prepare", "poller event %s reached the connection before OnPrepare finished", vcPointName(int(e.Point)))
			}
		}
	}
	phase := "none"
	switch {
	case nConStart == 0:
		phase = "noconnect"
	case nDis == 1 && disStart > conEnd:
		phase = "dis-after-connect"
	}
	t.Sig = fmt.Sprintf("%s|close=%s|in=%s|%s|req=%v|realised=%v|oc=%d", cfg.Network, cfg.PeerClose, cfg.CloseIn, phase, reqStart >= 0, t.Plan.Realised(), vcMinInt(cfg.OnConnectUs, 1))
	t.Nontrivial = clsFirst >= 0 && (nConStart > 0 || cfg.NoOnConnect)
	t.Stat("ondisconnect_runs", nDis)
	t.Stat("onconnect_runs", nConStart)
	if t.Plan != nil && t.Plan.Mode == vcModePause {
		t.Stat("pause_pairs_attempted", 1)
		if t.Plan.Realised() {
			t.Stat("pause_pairs_realised", 1)
		}
	}
}

// vc09RunBy tells from the trace which path ran the close callbacks of a connection.
func vc09RunBy(evs []vcEvent, id uintptr) string {
	lastEnter := -1
	for _, e := range evs {
		if e.Obj != id {
			continue
		}
		switch int(e.Point) {
		case vpCloseCbEnter:
			lastEnter = int(e.Arg)
		case vpCloseCbBeforeRun:
			if lastEnter >= 0 && lastEnter&2 == 0 {
				return "the handler task on its exit path"
			}
			return "the closer itself (poller hang-up or user Close)"
		}
	}
	return "an unknown path"
}
