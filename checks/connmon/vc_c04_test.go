// C04: a connection delivers the sender's byte stream intact.
package netpoll

import (
	"syscall"
	"context"
	"fmt"
	"io"
	"sync/atomic"
	"time"
)

func init() {
	vcScenarios["C04"] = vcScenC04
	vcDirected["C04"] = []vcScenario{
		// reset after complete delivery, reader paused with part of the stream still buffered
		func(t *vcTrial) { vc04Force = &vc04Forced{Total: 100}; defer func() { vc04Force = nil }(); vcScenC04(t) },
		func(t *vcTrial) { vc04Force = &vc04Forced{Total: 300 << 10}; defer func() { vc04Force = nil }(); vcScenC04(t) },
		func(t *vcTrial) { vc04Force = &vc04Forced{Total: 20 << 10}; defer func() { vc04Force = nil }(); vcScenC04(t) },
	}
}

// vc04Forced pins the abort-after-delivery variant for the directed trials (trials of one process
// run one after the other).
type vc04Forced struct{ Total int }

var vc04Force *vc04Forced

type vc04Side struct {
	rd      *vcStreamReader
	total   uint64
	done    chan struct{}
	errAt   error
	stalls  int
	readErr error
}

func vcBufClass(n int) string {
	switch {
	case n == 0:
		return "def"
	case n <= 8<<10:
		return "tiny"
	case n <= 64<<10:
		return "small"
	}
	return "big"
}

func vcScenC04(t *vcTrial) {
	r := t.R
	network := []string{"tcp", "unix", "unix"}[r.intn(3)]
	mode := []string{"c2s-handler", "s2c-reader"}[r.intn(2)]
	bufs := []int{0, 4 << 10, 16 << 10, 64 << 10, 256 << 10}
	snd, rcv := bufs[r.intn(len(bufs))], bufs[r.intn(len(bufs))]
	var total int
	switch r.intn(8) {
	case 0:
		total = r.rng(1, 100)
	case 1:
		total = r.rng(100, 20<<10)
	case 2, 3, 4:
		total = r.rng(64<<10, 512<<10)
	default:
		total = r.rng(512<<10, 3<<20)
	}
	if network == "tcp" && (snd == 4<<10 || rcv == 4<<10) && total > 256<<10 {
		total = r.rng(64<<10, 256<<10) // 4KB TCP buffers crawl (tiny windows + delayed ACKs)
	}
	if vc04Force != nil {
		network, mode, total = "tcp", "s2c-reader", vc04Force.Total
	}
	stallPct := []int{0, 0, 5, 30}[r.intn(4)]
	jitter := r.chance(50)
	t.P("network", network)
	t.P("mode", mode)
	t.P("sndbuf", snd)
	t.P("rcvbuf", rcv)
	t.P("total", total)
	t.P("reader_stall_pct", stallPct)
	t.P("jitter", jitter)
	streamSeed := r.next()

	if jitter {
		t.Plan = &vcPlan{Mode: vcModeJitter, Seed: r.next(), JitterPM: r.rng(20, 300), MaxSleep: time.Duration(r.rng(1, 300)) * time.Microsecond}
		vcSetPlan(t.Plan)
		defer vcSetPlan(nil)
	}

	// "all kernel short-write/EAGAIN patterns": besides small socket buffers, netpoll's own
	// sendmsg wrapper reports EAGAIN spuriously - nothing is transferred by such a call, exactly
	// as with the real errno - so the hand-off to the poller happens at any stream position
	faultPM := []int{0, 0, 50, 300}[r.intn(4)]
	t.P("transient_errno_permille", faultPM)
	if faultPM > 0 {
		fp := vcTransientFaults(r.next(), faultPM)
		// a readable event followed by an empty read (EAGAIN/EINTR) is possible on a live connection
		// (spurious wake-up); it is not once the peer has sent its FIN, where the poller drains to
		// EOF - the read faults are therefore switched off before either side closes (vc04StopReadFaults)
		fp.Rules = append(fp.Rules,
			&vcFaultRule{Site: vfltReadv, Errno: syscall.EAGAIN, FD: -1, PerMille: faultPM / 2},
			&vcFaultRule{Site: vfltReadv, Errno: syscall.EINTR, FD: -1, PerMille: faultPM / 4})
		vc04ReadFaults.Store(fp)
		vcSetFaults(fp)
		defer func() {
			vcSetFaults(nil)
			t.Stat("transient_errnos_injected", int(fp.Fired()))
		}()
	}

	var handlerReader *vcStreamReader
	var handlerEOFSeen int32
	hdone := make(chan struct{})
	var hcons uint64
	srvSender := make(chan *vcConnRec, 1)
	so := vcSrvOpts{Network: network, NCloseCb: 1}
	if mode == "c2s-handler" {
		rr := vfNewRng(r.next())
		so.OnPrepare = func(rec *vcConnRec) {
			vcSetBuf(rec.FD, 0, rcv)
			rec.Conn.AddCloseCallback(func(Connection) error {
				select {
				case <-hdone:
				default:
					close(hdone)
				}
				return nil
			})
		}
		so.OnRequest = func(ctx context.Context, rec *vcConnRec) error {
			if handlerReader == nil {
				handlerReader = &vcStreamReader{Rd: rec.Conn.Reader(), IO: rec.Conn, Seed: streamSeed, Total: uint64(total), R: rr}
			}
			rd := handlerReader
			// one invocation handles a random share of what is outstanding
			budget := rr.rng(1, 8)
			for i := 0; i < budget && rd.Pos < uint64(total); i++ {
				if rr.chance(stallPct) {
					time.Sleep(time.Duration(rr.rng(0, 3000)) * time.Microsecond)
				}
				_, err := rd.Step(int(uint64(total) - rd.Pos))
				if err != nil {
					if rd.Pos < uint64(total) {
						atomic.StoreInt32(&handlerEOFSeen, 1)
						t.Violate("C04", "early_eof", "server handler: read failed at stream position %d of %d: %v", rd.Pos, total, err)
					}
					return nil
				}
				if rd.Bad != "" {
					t.Violate("C04", "wrong_bytes", "server handler: %s", rd.Bad)
					rec.Conn.Close()
					return nil
				}
			}
			atomic.StoreUint64(&hcons, rd.Pos)
			if rd.Pos >= uint64(total) {
				// everything verified; whatever is still buffered would be bytes after the end
				if l := rec.Conn.Reader().Len(); l > 0 {
					t.Violate("C04", "extra_bytes", "server handler: %d bytes buffered after the whole stream (%d) was read", l, total)
					rec.Conn.Reader().Skip(l)
				}
				rec.Conn.Reader().Release()
			}
			return nil
		}
	} else {
		so.OnPrepare = func(rec *vcConnRec) { vcSetBuf(rec.FD, snd, 0) }
		so.OnConnect = func(ctx context.Context, rec *vcConnRec) { srvSender <- rec }
	}
	srv, err := vcStartServer(so)
	if err != nil {
		t.Inconclusive("server start: %v", err)
		return
	}
	defer srv.Stop(5 * time.Second)

	cli, err := DialConnection(network, srv.Addr, 5*time.Second)
	if err != nil {
		t.Inconclusive("dial: %v", err)
		return
	}
	cfd := cli.(Conn).Fd()
	mark := vcTraceMark()
	var sender *vcStreamWriter
	var rd *vcStreamReader
	start := time.Now()
	if mode == "c2s-handler" {
		vcSetBuf(cfd, snd, 0)
		sender = &vcStreamWriter{C: cli, Seed: streamSeed, R: vfNewRng(r.next())}
		for sender.Pos < uint64(total) && sender.Err == nil {
			sender.Step(int(uint64(total)-sender.Pos), 40)
		}
		sender.Flush()
		if sender.Err != nil {
			// the guarantee covers a connection up to its first reported write error
			t.Stat("write_errors", 1)
			t.P("write_error", sender.Err.Error())
		}
		vc04StopReadFaults()
		cli.Close()
		select {
		case <-hdone:
		case <-time.After(30 * time.Second):
			t.Inconclusive("server side close callback not seen 30s after the sender closed (consumed %d/%d)", atomic.LoadUint64(&hcons), total)
			return
		}
		rd = handlerReader
		var got uint64
		if rd != nil {
			got = rd.Pos
		}
		if sender.Err == nil && got != uint64(total) {
			t.Violate("C04", "short_stream", "sender flushed %d bytes and closed; the receiver's handler had verified only %d when its close callbacks ran", total, got)
		}
		if sender.Err != nil && got > sender.Pos {
			t.Violate("C04", "extra_bytes", "receiver read %d bytes, sender submitted %d", got, sender.Pos)
		}
	} else {
		vcSetBuf(cfd, 0, rcv)
		var rec *vcConnRec
		select {
		case rec = <-srvSender:
		case <-time.After(10 * time.Second):
			t.Inconclusive("OnConnect not seen")
			cli.Close()
			return
		}
		sender = &vcStreamWriter{C: rec.Conn, Seed: streamSeed, R: vfNewRng(r.next())}
		sdone := make(chan struct{})
		// abort variant: the reader pauses somewhere, the sender flushes everything, waits until the
		// receiving netpoll has taken every byte from the kernel, and then resets the connection
		// (SO_LINGER 0) instead of closing it gracefully. What netpoll has read stays readable.
		abort := network == "tcp" && (r.chance(50) || vc04Force != nil)
		pauseAt := uint64(r.intn(total))
		paused := make(chan struct{})
		aborted := make(chan struct{})
		t.P("abort_after_delivery", abort)
		go func() {
			defer close(sdone)
			for sender.Pos < uint64(total) && sender.Err == nil {
				sender.Step(int(uint64(total)-sender.Pos), 40)
			}
			sender.Flush()
			vc04StopReadFaults()
			if abort {
				defer close(aborted)
				if sender.Err == nil {
					select {
					case <-paused:
						in := vcInner(cli)
						for dl := time.Now().Add(10 * time.Second); time.Now().Before(dl) && uint64(in.inputBuffer.Len())+rd.Pos < uint64(total); {
							time.Sleep(200 * time.Microsecond)
						}
						if uint64(in.inputBuffer.Len())+rd.Pos == uint64(total) {
							syscall.SetsockoptLinger(rec.FD, syscall.SOL_SOCKET, syscall.SO_LINGER, &syscall.Linger{Onoff: 1, Linger: 0})
							t.Stat("aborted_after_delivery", 1)
							amark := vcTraceMark()
							rec.Conn.Close()
							vcWaitPoint(amark, vpOnHupAfterCloseBy, vcConnID(cli), 2*time.Second)
							return
						}
					case <-time.After(20 * time.Second):
					}
				}
			}
			rec.Conn.Close()
		}()
		rr := vfNewRng(r.next())
		rd = &vcStreamReader{Rd: cli.Reader(), IO: cli.(io.Reader), Seed: streamSeed, Total: uint64(total), R: rr}
		for rd.Pos < uint64(total) {
			if abort && rd.Pos >= pauseAt {
				select {
				case <-paused:
				default:
					close(paused)
					<-aborted
				}
			}
			if rr.chance(stallPct) {
				time.Sleep(time.Duration(rr.rng(0, 3000)) * time.Microsecond)
			}
			_, err := rd.Step(int(uint64(total) - rd.Pos))
			if rd.Bad != "" {
				t.Violate("C04", "wrong_bytes", "client reader: %s", rd.Bad)
				break
			}
			if err != nil {
				<-sdone
				if sender.Err == nil {
					t.Violate("C04", "early_eof", "client reader: read failed at stream position %d of %d although the sender flushed everything without error: %v", rd.Pos, total, err)
				}
				break
			}
		}
		<-sdone
		if sender.Err != nil {
			t.Stat("write_errors", 1)
			t.P("write_error", sender.Err.Error())
		}
		if !t.Violated() && sender.Err == nil {
			// then and only then end-of-stream
			cli.SetReadTimeout(10 * time.Second)
			p, err := cli.Reader().Next(1)
			if err == nil {
				t.Violate("C04", "extra_bytes", "client reader: a byte (0x%02x) arrived after the %d bytes the sender flushed", p[0], total)
			} else if !vcEOFish(err) && !abort {
				t.Violate("C04", "eof_class", "client reader: after the complete stream the read error is %v, want ErrEOF (peer closed, no local close)", err)
			}
		}
		cli.Close()
	}
	el := time.Since(start)
	// path statistics from the trace
	evs := vcTraceSince(mark)
	pollerFlush, partial, direct := 0, 0, 0
	for _, e := range evs {
		switch int(e.Point) {
		case vpFlushAfterR2RW:
			pollerFlush++
		case vpFlushAfterSend:
			direct++
		case vpOutputAck:
			partial++
		}
	}
	multi := 0
	if rd != nil {
		multi = rd.Mix["Next"] + rd.Mix["ReadBinary"]
	}
	t.Stat("bytes_verified", int(func() uint64 {
		if rd != nil {
			return rd.Pos
		}
		return 0
	}()))
	t.Stat("flushes_completed_by_poller", pollerFlush)
	t.Stat("direct_sendmsg_calls", direct)
	t.Stat("poller_output_acks", partial)
	t.Stat("trials_ms", int(el/time.Millisecond))
	path := "direct"
	if pollerFlush > 0 {
		path = "poller"
	}
	szc := "S"
	if total >= 64<<10 {
		szc = "L"
	}
	t.Sig = fmt.Sprintf("%s/%s/snd=%s/rcv=%s/%s/%s/stall=%d/jit=%v/eagain=%v", mode, network, vcBufClass(snd), vcBufClass(rcv), path, szc, stallPct, jitter, faultPM > 0)
	t.Nontrivial = (pollerFlush > 0 || multi > 0) && total >= 64<<10
	if sender != nil {
		t.P("writer_mix", sender.Mix)
	}
	if rd != nil {
		t.P("reader_mix", rd.Mix)
	}
}

var vc04ReadFaults atomic.Value // *vcFaultPlan of the running trial

// vc04StopReadFaults removes the read-side rules from the running plan (the sendmsg rule stays).
func vc04StopReadFaults() {
	fp, _ := vc04ReadFaults.Load().(*vcFaultPlan)
	if fp == nil {
		return
	}
	var keep []*vcFaultRule
	for _, ru := range fp.Rules {
		if ru.Site != vfltReadv {
			keep = append(keep, ru)
		}
	}
	vcSetFaults(&vcFaultPlan{Seed: fp.Seed, Rules: keep})
	time.Sleep(200 * time.Microsecond) // a read that was already past the hook finishes
}
