// C05: connection teardown happens exactly once.
package netpoll

import (
	"context"
	"fmt"
	"net"
	"runtime"
	"sort"
	"strings"
	"sync"
	"sync/atomic"
	"syscall"
	"time"
)

func init() {
	vcScenarios["C05"] = vcScenC05
	vcDirected["C05"] = []vcScenario{
		// D8: the handler panics after the peer closed; a later Close must not run the callbacks again
		func(t *vcTrial) { vcRunC05(t, vc05Cfg{Network: "tcp", Handler: "panic", Actors: []string{"fin"}}) },
		func(t *vcTrial) { vcRunC05(t, vc05Cfg{Network: "unix", Handler: "panic", Actors: []string{"rst", "close"}, Closers: 2}) },
		func(t *vcTrial) { vcRunC05(t, vc05Cfg{Network: "tcp", Handler: "panic", Actors: []string{"close"}, Closers: 1}) },
		func(t *vcTrial) { vcRunC05(t, vc05Cfg{Network: "tcp", Handler: "panic", Actors: []string{"fin", "shutdown"}, OnConnect: true}) },
		func(t *vcTrial) { vcRunC05(t, vc05Cfg{Network: "unix", Handler: "block", Actors: []string{"fin", "close", "input"}, Closers: 4}) },
		func(t *vcTrial) { vcRunC05(t, vc05Cfg{Network: "tcp", Handler: "blockread", Actors: []string{"detach"}, Detach: true}) },
		func(t *vcTrial) { vcRunC05(t, vc05Cfg{Network: "tcp", Handler: "block", Actors: []string{"ioerror", "close"}, Closers: 2}) },
		func(t *vcTrial) { vcRunC05(t, vc05Cfg{Network: "unix", Handler: "drain", Actors: []string{"ioerror"}, OnConnect: true}) },
		func(t *vcTrial) { vcRunC05(t, vc05Cfg{Network: "tcp", Handler: "none", OnConnect: true, Actors: []string{"fin"}}) },
		func(t *vcTrial) { vcRunC05(t, vc05Cfg{Network: "tcp", Handler: "drain", Actors: []string{"close"}, Closers: 1, Flusher: true}) },
		func(t *vcTrial) { vcRunC05(t, vc05Cfg{Network: "unix", Handler: "block", Actors: []string{"close", "input"}, Closers: 2, Flusher: true}) },
		func(t *vcTrial) { vcRunC05(t, vc05Cfg{Network: "unix", Handler: "none", OnConnect: true, Actors: []string{"input", "fin"}}) },
		vcRunC05DetachThenClose,
		vcRunC05RegisterFails,
		vcRunC05RegisterFails,
		func(t *vcTrial) { vcRunC05PrepareClose(t, 1, "tcp") },
		func(t *vcTrial) { vcRunC05PrepareClose(t, 3, "unix") },
	}
}

// ------------------------------------------------------------------ descriptor / slot audit (shared with C10, C13-C15)

type vcFDEv struct {
	Seq   uint64
	Kind  int
	Owner uintptr
	FD    int
	Open  bool   // fstat succeeded at that instant
	Ino   uint64 // inode at that instant
	Sock  bool
}

type vcAudit struct {
	mu  sync.Mutex
	fds []vcFDEv
	ops []vcEvent // alloc/freeable/splice events
}

var vcAuditPtr atomic.Value // *vcAudit

func vcFstat(fd int) (open bool, ino uint64, sock bool) {
	var st syscall.Stat_t
	if err := syscall.Fstat(fd, &st); err != nil {
		return false, 0, false
	}
	return true, st.Ino, st.Mode&syscall.S_IFMT == syscall.S_IFSOCK
}

func vcStartAudit() *vcAudit {
	a := &vcAudit{}
	vcAuditPtr.Store(a)
	vcFDCallback.Store(func(kind int, owner uintptr, fd int) {
		cur, _ := vcAuditPtr.Load().(*vcAudit)
		if cur == nil {
			return
		}
		open, ino, sock := vcFstat(fd)
		cur.mu.Lock()
		cur.fds = append(cur.fds, vcFDEv{Seq: vfNextSeq(), Kind: kind, Owner: owner, FD: fd, Open: open, Ino: ino, Sock: sock})
		cur.mu.Unlock()
	})
	vcPointCallback.Store(func(id int, obj uintptr, arg int) {
		if id != vpOpAlloc && id != vpOpFreeable && id != vpOpFreeSplice {
			return
		}
		cur, _ := vcAuditPtr.Load().(*vcAudit)
		if cur == nil {
			return
		}
		cur.mu.Lock()
		cur.ops = append(cur.ops, vcEvent{Seq: vfNextSeq(), Point: int32(id), Obj: obj, Arg: int32(arg)})
		cur.mu.Unlock()
	})
	return a
}

// closesOfRec: the closes issued by the connection of rec since its OnPrepare started. Connection
// objects of earlier trials (or earlier connections of this one) that have been garbage-collected
// can have had the same address; their late closes may still land in this ledger.
func (a *vcAudit) closesOfRec(rec *vcConnRec) []vcFDEv {
	var first uint64
	if evs := rec.events(); len(evs) > 0 {
		first = evs[0].Seq
	}
	var out []vcFDEv
	for _, e := range a.closesOf(rec.ID) {
		if e.Seq > first {
			out = append(out, e)
		}
	}
	return out
}

func (a *vcAudit) closesOf(owner uintptr) []vcFDEv {
	a.mu.Lock()
	defer a.mu.Unlock()
	var out []vcFDEv
	for _, e := range a.fds {
		if e.Kind < 0 && e.Owner == owner {
			out = append(out, e)
		}
	}
	return out
}

// freeablesOf counts the releases of slot op after its most recent allocation at or before
// sequence number `owned` (the slot object is recycled: earlier owners do not count).
func (a *vcAudit) freeablesOf(op uintptr, owned uint64) int {
	a.mu.Lock()
	defer a.mu.Unlock()
	n := 0
	for _, e := range a.ops {
		if int(e.Point) == vpOpFreeable && e.Obj == op && e.Seq > owned {
			n++
		}
	}
	return n
}

// ------------------------------------------------------------------ IsActive sampler

type vcActiveSampler struct {
	stop    int32
	wg      sync.WaitGroup
	bad     int32
	samples int64
}

func vcSampleActive(c Connection, n int) *vcActiveSampler {
	s := &vcActiveSampler{}
	for i := 0; i < n; i++ {
		s.wg.Add(1)
		go func() {
			defer s.wg.Done()
			sawFalse := false
			for atomic.LoadInt32(&s.stop) == 0 {
				v := c.IsActive()
				atomic.AddInt64(&s.samples, 1)
				if !v {
					sawFalse = true
				} else if sawFalse {
					atomic.StoreInt32(&s.bad, 1)
					return
				}
				if sawFalse {
					time.Sleep(20 * time.Microsecond)
				} else {
					runtime.Gosched()
				}
			}
		}()
	}
	return s
}

func (s *vcActiveSampler) Stop() bool {
	atomic.StoreInt32(&s.stop, 1)
	s.wg.Wait()
	return atomic.LoadInt32(&s.bad) == 0
}

// ------------------------------------------------------------------ teardown pause pairs

var vc05Points = []int{
	vpOnHupEnter, vpOnHupAfterCloseBy, vpOnHupAfterTrigger, vpOnHupAfterDisconnect,
	vpOnCloseEnter, vpOnCloseWon, vpOnCloseLost,
	vpCloseCbEnter, vpCloseCbLockFail, vpCloseCbLocked, vpCloseCbBeforeRun, vpCloseCbDone,
	vpProcessStart, vpProcessBeforeCloseCb, vpProcessBeforeUnlock, vpProcessAfterUnlock, vpProcessBetweenChecks, vpProcessExit,
	vpPanicDeferEnter, vpPanicDeferAfterUnlock,
	vpFinalizerEnter, vpFinalizerAfterStop, vpFinalizerAfterFree, vpFinalizerAfterClose,
	vpInputAckAfterBook, vpOnRequestEnter, vpTaskStart, vpPollEvent, vpAppendHup,
}

type vc05Cfg struct {
	Network   string
	Handler   string // drain | block | panic | closeinside | blockread | none
	Actors    []string
	Closers   int
	Detach    bool
	OnConnect bool
	Mode      int
	P, Q      int
	ClientNP  bool // the connection under test is the dialed (client) side, without callbacks
	Flusher   bool // a goroutine outside the handler is parked in Flush (peer not reading) when the actors start
}

func vcScenC05(t *vcTrial) {
	r := t.R
	cfg := vc05Cfg{Network: []string{"tcp", "unix"}[r.intn(2)]}
	cfg.Handler = []string{"drain", "drain", "block", "panic", "closeinside", "blockread"}[r.intn(6)]
	cfg.Closers = r.rng(0, 4)
	cfg.OnConnect = r.chance(30)
	if r.chance(12) {
		cfg.Handler, cfg.OnConnect = "none", true
	}
	cfg.Detach = r.chance(8)
	cfg.ClientNP = r.chance(15)
	if r.chance(6) {
		vcRunC05PrepareClose(t, r.rng(1, 3), []string{"tcp", "unix"}[r.intn(2)])
		return
	}
	if r.intn(80) == 0 {
		vcRunC05RegisterFails(t)
		return
	}
	// actors besides the handler
	pool := []string{"fin", "rst", "input", "shutdown"}
	for _, a := range pool {
		if r.chance(45) {
			cfg.Actors = append(cfg.Actors, a)
		}
	}
	if cfg.Detach {
		// Detach concurrent with Close is outside any contract (Detach sets a plain flag that the
		// descriptor close reads): detach trials have no other local closer.
		cfg.Closers = 0
		cfg.Handler = []string{"drain", "block", "blockread"}[r.intn(3)]
		var keep []string
		for _, a := range cfg.Actors {
			if a != "shutdown" {
				keep = append(keep, a)
			}
		}
		cfg.Actors = append(keep, "detach")
	}
	if cfg.Closers > 0 {
		cfg.Actors = append(cfg.Actors, "close")
	}
	if !cfg.Detach && !cfg.ClientNP && r.chance(25) {
		cfg.Actors = append(cfg.Actors, "ioerror")
	}
	switch r.intn(3) {
	case 0:
		cfg.Mode = vcModeNone
	case 1:
		cfg.Mode = vcModeJitter
	default:
		cfg.Mode = vcModePause
		cfg.P = vc05Points[r.intn(len(vc05Points))]
		cfg.Q = vc05Points[r.intn(len(vc05Points))]
	}
	if cfg.ClientNP {
		vcRunC05Client(t, cfg)
		return
	}
	cfg.Flusher = !cfg.Detach && r.chance(15)
	vcRunC05(t, cfg)
}

func vcRunC05(t *vcTrial, cfg vc05Cfg) {
	r := t.R
	t.P("cfg", fmt.Sprintf("%+v", cfg))
	t.P("P", vcPointName(cfg.P))
	t.P("Q", vcPointName(cfg.Q))
	audit := vcStartAudit()
	release := make(chan struct{})
	var relOnce sync.Once
	doRelease := func() { relOnce.Do(func() { close(release) }) }
	var handlerRuns int32
	var opPtr uintptr
	so := vcSrvOpts{Network: cfg.Network, NCloseCb: 3}
	var ownedSeq uint64
	epfd := -1
	so.OnPrepare = func(rec *vcConnRec) {
		opPtr = vcObjID(vcInner(rec.Conn).operator)
		ownedSeq = vfNextSeq()
		if dp, ok := vcInner(rec.Conn).operator.poll.(*defaultPoll); ok {
			epfd = dp.fd
		}
	}
	if cfg.OnConnect {
		so.OnConnect = func(ctx context.Context, rec *vcConnRec) {}
		so.OnDisconnect = func(ctx context.Context, rec *vcConnRec) {}
	}
	so.NoOnRequest = cfg.Handler == "none" // a server with OnConnect/OnDisconnect only
	so.OnRequest = func(ctx context.Context, rec *vcConnRec) error {
		atomic.AddInt32(&handlerRuns, 1)
		c := rec.Conn
		switch cfg.Handler {
		case "drain":
			c.Reader().Skip(c.Reader().Len())
			c.Reader().Release()
		case "block":
			<-release
			c.Reader().Skip(c.Reader().Len())
			c.Reader().Release()
		case "panic":
			<-release
			c.Reader().Skip(c.Reader().Len())
			panic("verif: handler panic (C05 scenario)")
		case "closeinside":
			c.Reader().Skip(c.Reader().Len())
			c.Close()
		case "blockread":
			_, err := c.Reader().Next(c.Reader().Len() + 1000)
			if err != nil {
				c.Reader().Skip(c.Reader().Len())
			}
			c.Reader().Release()
		}
		return nil
	}
	srv, err := vcStartServer(so)
	if err != nil {
		t.Inconclusive("server start: %v", err)
		return
	}
	stopped := false
	defer func() {
		if !stopped {
			srv.Stop(3 * time.Second)
		}
	}()
	cli, err := vcDialRaw(srv)
	if err != nil {
		t.Inconclusive("dial: %v", err)
		return
	}
	defer cli.Close()
	rec := srv.nextAccepted(5 * time.Second)
	if rec == nil {
		t.Inconclusive("accept not seen")
		return
	}
	mark := vcTraceMark()
	sampler := vcSampleActive(rec.Conn, 2)
	// perturbation
	switch cfg.Mode {
	case vcModeJitter:
		t.Plan = &vcPlan{Mode: vcModeJitter, Seed: r.next(), JitterPM: r.rng(50, 500), MaxSleep: time.Duration(r.rng(1, 500)) * time.Microsecond}
	case vcModePause:
		t.Plan = &vcPlan{Mode: vcModePause, P: cfg.P, Q: cfg.Q, ObjP: 0, ObjQ: 0, ArgQ: -1, Timeout: time.Duration(r.rng(2, 20)) * time.Millisecond}
	}
	vcSetPlan(t.Plan)
	// first input starts the handler
	cli.Write([]byte("hello-verif"))
	if cfg.Handler != "drain" && cfg.Handler != "closeinside" && cfg.Handler != "none" {
		// give the handler a chance to be running when the actors start (not required)
		vcWaitPoint(mark, vpTaskStart, rec.ID, 200*time.Millisecond)
	}
	// a writer outside the handler, parked in Flush on the full socket (the raw peer never reads):
	// whoever tears the connection down has to get past it, and it has to be woken
	flushDone := make(chan struct{})
	if cfg.Flusher {
		vcSetBuf(rec.FD, 4<<10, 0)
		go func() {
			defer close(flushDone)
			defer func() { recover() }() // a writer racing with the close of the buffers is D22's subject (C08)
			if b, err := rec.Conn.Writer().Malloc(2 << 20); err == nil {
				vfFill(b, 5, 0)
				rec.Conn.Writer().Flush()
			}
		}()
		if vcWaitFlushParked(mark, rec.ID, 2*time.Second) {
			t.Stat("flusher_parked_before_actors", 1)
		}
	} else {
		close(flushDone)
	}
	// actors behind a barrier
	var wg sync.WaitGroup
	barrier := make(chan struct{})
	spawn := func(name string, f func()) {
		wg.Add(1)
		d := time.Duration(r.intn(400)) * time.Microsecond
		go func() {
			defer wg.Done()
			<-barrier
			time.Sleep(d)
			f()
		}()
	}
	usedFin := false
	var detachStart, detachEnd int64
	for _, a := range cfg.Actors {
		switch a {
		case "fin":
			if !usedFin {
				usedFin = true
				spawn(a, func() { cli.Close() })
			}
		case "rst":
			if !usedFin {
				usedFin = true
				spawn(a, func() { vcRST(cli) })
			}
		case "input":
			spawn(a, func() { cli.Write([]byte("more-input-for-the-handler")) })
		case "ioerror":
			// "poller error": the poller's next readv on this connection fails hard
			errno := []syscall.Errno{syscall.ECONNRESET, syscall.ETIMEDOUT, syscall.ENOMEM, syscall.EIO}[r.intn(4)]
			fp := &vcFaultPlan{Rules: []*vcFaultRule{{Site: vfltReadv, Errno: errno, FD: rec.FD, Count: 1}}}
			defer func() {
				vcSetFaults(nil)
				t.Stat("poller_read_errors_injected", int(fp.Fired()))
			}()
			spawn(a, func() {
				vcSetFaults(fp)
				cli.Write([]byte("input-whose-read-fails"))
			})
		case "shutdown":
			spawn(a, func() {
				ctx, cancel := context.WithTimeout(context.Background(), 50*time.Millisecond)
				srv.Evl.Shutdown(ctx)
				cancel()
			})
			stopped = true
		case "close":
			for i := 0; i < cfg.Closers; i++ {
				spawn(a, func() { rec.Conn.Close() })
			}
		case "detach":
			spawn(a, func() {
				atomic.StoreInt64(&detachStart, vfNow())
				vcInner(rec.Conn).Detach()
				atomic.StoreInt64(&detachEnd, vfNow())
			})
		}
	}
	spawn("release", doRelease)
	close(barrier)
	if cfg.Flusher {
		// bounded: a Close that cannot get past the parked writer (or never wakes it) would hang here
		actorsDone := make(chan struct{})
		go func() { wg.Wait(); close(actorsDone) }()
		select {
		case <-actorsDone:
		case <-time.After(30 * time.Second):
			doRelease()
			vcSetPlan(nil)
			flusherBack := false
			select {
			case <-flushDone:
				flusherBack = true
			default:
			}
			stuck := vcStacksContaining("netpoll.(*connection).Close")
			if len(stuck) > 0 && vcRunnerProgress(5, 5*time.Second) {
				t.Violate("C05", "close_stuck", "Close() called while another goroutine was parked in Flush on a full socket has not returned after 30 s (the parked Flush has returned: %v; close callbacks run so far: %d): the teardown never completes (history %v)", flusherBack, rec.count(vcCbClose), rec.history())
				t.P("stuck_stacks", stuck)
			} else {
				t.Inconclusive("actors did not return within 30s, no stuck Close on the stacks")
			}
			sampler.Stop()
			return
		}
	} else {
		wg.Wait()
	}
	doRelease()
	vcSetPlan(nil)
	// a connection with callbacks that the *peer* closed is torn down by netpoll itself (only a
	// connection without OnConnect and OnRequest waits for the user's Close): the close callbacks
	// must come without any user Close. Bounded progress with a stuck-state witness.
	if usedFin && !cfg.Detach && rec.count(vcCbClose) == 0 {
		for dl := time.Now().Add(5 * time.Second); rec.count(vcCbClose) == 0 && time.Now().Before(dl); {
			time.Sleep(100 * time.Microsecond)
		}
		if c := vcInner(rec.Conn); rec.count(vcCbClose) == 0 && atomic.LoadInt32(&rec.depth) == 0 && c.isUnlock(processing) && !c.IsActive() && vcRunnerProgress(5, 5*time.Second) {
			time.Sleep(200 * time.Millisecond)
			if rec.count(vcCbClose) == 0 && atomic.LoadInt32(&rec.depth) == 0 && c.isUnlock(processing) {
				t.Violate("C05", "never_torn_down", "the peer closed the connection (callbacks configured: OnConnect=%v OnRequest=%v), the poller marked it closed, no handler is running and the processing lock is free - yet the close callbacks did not run without a user Close (history %v)", cfg.OnConnect, cfg.Handler != "none", rec.history())
				sampler.Stop()
				rec.Conn.Close()
				return
			}
		}
	}
	// final user Close: after it returned and the handler task has exited the connection must be torn down
	if cfg.Flusher {
		fin := make(chan struct{})
		go func() { rec.Conn.Close(); close(fin) }()
		select {
		case <-fin:
		case <-time.After(30 * time.Second):
			stuck := vcStacksContaining("netpoll.(*connection).Close")
			if len(stuck) > 0 && vcRunnerProgress(5, 5*time.Second) {
				t.Violate("C05", "close_stuck", "the final Close() - a writer is (or was) parked in Flush on a full socket - has not returned after 30 s (close callbacks run so far: %d, history %v)", rec.count(vcCbClose), rec.history())
				t.P("stuck_stacks", stuck)
			} else {
				t.Inconclusive("final Close did not return within 30s")
			}
			sampler.Stop()
			return
		}
	} else {
		rec.Conn.Close()
	}
	closed := rec.waitClosed(10 * time.Second)
	if !closed {
		// stuck-state witness: no handler running, processing lock free, callbacks never ran
		c := vcInner(rec.Conn)
		if atomic.LoadInt32(&rec.depth) == 0 && c.isUnlock(processing) {
			time.Sleep(200 * time.Millisecond)
			if rec.count(vcCbClose) == 0 && atomic.LoadInt32(&rec.depth) == 0 && c.isUnlock(processing) {
				t.Violate("C05", "never_torn_down", "user Close returned, no request handler is running, the processing lock is free, yet no close callback ran (history %v)", rec.history())
			}
		}
		if !t.Violated() {
			t.Inconclusive("close callbacks not finished 10s after the final Close (handler depth %d)", atomic.LoadInt32(&rec.depth))
		}
		sampler.Stop()
		return
	}
	// the connection's own finalizer (registered first, so it runs last) closes the descriptor and
	// releases the poller slot: wait for its last hook event before counting anything
	if !vcWaitPoint(mark, vpFinalizerAfterClose, rec.ID, 10*time.Second) {
		t.Inconclusive("finalizer end not seen 10s after the user callbacks ran")
		sampler.Stop()
		return
	}
	// let any second (erroneous) round surface, then Close once more (idempotence)
	time.Sleep(time.Duration(r.rng(200, 2000)) * time.Microsecond)
	func() {
		defer func() {
			if p := recover(); p != nil {
				t.Violate("C05", "close_panics", "Close() after teardown panicked: %v", p)
			}
		}()
		rec.Conn.Close()
	}()
	time.Sleep(300 * time.Microsecond)
	if !sampler.Stop() {
		t.Violate("C05", "isactive_revived", "IsActive returned true after it had returned false")
	}
	if msg := rec.checkCloseCallbacks(); msg != "" {
		t.Violate("C05", "close_callbacks", "%s (history %v)", msg, rec.history())
	}
	closes := audit.closesOfRec(rec)
	detached := vcInner(rec.Conn).detaching
	// "not at all when detached" holds for a Detach that completed before the teardown reached the
	// descriptor; a Detach called after the (peer-initiated) teardown finished cannot undo the close.
	var finT0, finT1 int64
	for _, e := range vcTraceSince(mark) {
		if e.Obj == rec.ID && int(e.Point) == vpFinalizerAfterFree && finT0 == 0 {
			finT0 = e.T
		}
		if e.Obj == rec.ID && int(e.Point) == vpFinalizerAfterClose && finT1 == 0 {
			finT1 = e.T
		}
	}
	minCloses, maxCloses := 1, 1
	if detached {
		ds, de := atomic.LoadInt64(&detachStart), atomic.LoadInt64(&detachEnd)
		switch {
		case de != 0 && de < finT0:
			minCloses, maxCloses = 0, 0
		case ds > finT1:
			minCloses, maxCloses = 1, 1
		default:
			minCloses, maxCloses = 0, 1
		}
	}
	if len(closes) < minCloses || len(closes) > maxCloses {
		t.Violate("C05", "descriptor_closes", "descriptor %d of the connection was closed %d time(s), want %d..%d (detached=%v)", rec.FD, len(closes), minCloses, maxCloses, detached)
	}
	for _, e := range closes {
		if !e.Open {
			t.Violate("C05", "descriptor_closes", "close issued on descriptor %d which was not open at that moment", e.FD)
		}
	}
	if detached && len(closes) == 0 {
		// "its poller registration is released": the descriptor is the user's again and still open,
		// so the kernel shows whether netpoll's epoll instance still watches it - a DEL that
		// succeeds found a registration that the teardown left behind (events of the user's
		// socket would go on being dispatched to a poller slot that is free for re-use)
		if epfd >= 0 {
			var ev epollevent
			if err := EpollCtl(epfd, syscall.EPOLL_CTL_DEL, rec.FD, &ev); err == nil {
				t.Violate("C05", "registration_left", "after Detach and the complete teardown (close callbacks done, poller slot released) descriptor %d was still registered with netpoll's epoll instance: no EPOLL_CTL_DEL was issued (history %v)", rec.FD, rec.history())
			}
		}
		syscall.Close(rec.FD)
	}
	if n := audit.freeablesOf(opPtr, ownedSeq); n != 1 {
		t.Violate("C05", "registration_release", "the poller registration (operator slot) of the connection was released %d time(s), want 1", n)
	}
	// signature: order of the teardown actors' first events on this connection
	evs := vcTraceSince(mark)
	t.Sig, t.Nontrivial = vc05Signature(evs, rec.ID, cfg, t.Plan)
	t.Stat("handler_invocations", int(atomic.LoadInt32(&handlerRuns)))
	t.Stat("isactive_samples", int(atomic.LoadInt64(&sampler.samples)))
	if t.Plan != nil && t.Plan.Mode == vcModePause {
		t.Stat("pause_pairs_attempted", 1)
		if t.Plan.Parked() {
			t.Stat("pause_pairs_parked", 1)
		}
		if t.Plan.Realised() {
			t.Stat("pause_pairs_realised", 1)
		}
	}
}

// vc05Signature derives the order in which the teardown actors first touched the connection.
func vc05Signature(evs []vcEvent, id uintptr, cfg vc05Cfg, plan *vcPlan) (string, bool) {
	first := map[string]uint64{}
	note := func(k string, s uint64) {
		if _, ok := first[k]; !ok {
			first[k] = s
		}
	}
	for _, e := range evs {
		if e.Obj != id {
			continue
		}
		switch int(e.Point) {
		case vpOnHupEnter:
			note("hup", e.Seq)
		case vpOnCloseWon:
			note("closeW", e.Seq)
		case vpOnCloseLost:
			note("closeL", e.Seq)
		case vpProcessBeforeCloseCb:
			note("taskCb", e.Seq)
		case vpPanicDeferEnter:
			note("panic", e.Seq)
		case vpCloseCbLockFail:
			note("lockfail", e.Seq)
		case vpProcessExit:
			note("taskExit", e.Seq)
		case vpCloseCbBeforeRun:
			note("run", e.Seq)
		}
	}
	type kv struct {
		k string
		s uint64
	}
	var l []kv
	for k, s := range first {
		l = append(l, kv{k, s})
	}
	sort.Slice(l, func(i, j int) bool { return l[i].s < l[j].s })
	var ks []string
	for _, e := range l {
		ks = append(ks, e.k)
	}
	actors := 0
	for _, k := range []string{"hup", "closeW", "closeL", "taskCb", "panic"} {
		if _, ok := first[k]; ok {
			actors++
		}
	}
	sig := fmt.Sprintf("%s|%s|%s", cfg.Handler, strings.Join(ks, ">"), map[bool]string{true: "oc", false: "-"}[cfg.OnConnect])
	nontrivial := actors >= 2 || (plan != nil && plan.Realised())
	if plan != nil && plan.Realised() {
		sig += "|pair=" + vcPointName(plan.P) + ">" + vcPointName(plan.Q)
	}
	return sig, nontrivial
}

// vcRunC05Client: the connection under test is a dialed netpoll connection without any
// callback (closeCallback is driven by the user alone; the poller only marks it closed).
func vcRunC05Client(t *vcTrial, cfg vc05Cfg) {
	r := t.R
	t.P("cfg", fmt.Sprintf("%+v", cfg))
	audit := vcStartAudit()
	ln, err := net.Listen("tcp", "127.0.0.1:0")
	if err != nil {
		t.Inconclusive("listen: %v", err)
		return
	}
	defer ln.Close()
	acc := make(chan net.Conn, 1)
	go func() {
		c, err := ln.Accept()
		if err == nil {
			acc <- c
		}
	}()
	conn, err := DialConnection("tcp", ln.Addr().String(), 5*time.Second)
	if err != nil {
		t.Inconclusive("dial: %v", err)
		return
	}
	var peer net.Conn
	select {
	case peer = <-acc:
	case <-time.After(5 * time.Second):
		t.Inconclusive("accept timeout")
		return
	}
	defer peer.Close()
	rec := &vcConnRec{ID: vcConnID(conn), Conn: conn, FD: conn.(Conn).Fd(), done: make(chan struct{})}
	rec.registerCloseCallbacks(conn, 3)
	opPtr := vcObjID(vcInner(conn).operator)
	ownedSeq := vfNextSeq()
	mark := vcTraceMark()
	sampler := vcSampleActive(conn, 2)
	if cfg.Mode == vcModeJitter {
		t.Plan = &vcPlan{Mode: vcModeJitter, Seed: r.next(), JitterPM: r.rng(50, 500), MaxSleep: time.Duration(r.rng(1, 300)) * time.Microsecond}
	} else if cfg.Mode == vcModePause {
		t.Plan = &vcPlan{Mode: vcModePause, P: cfg.P, Q: cfg.Q, ArgQ: -1, Timeout: time.Duration(r.rng(2, 20)) * time.Millisecond}
	}
	vcSetPlan(t.Plan)
	var wg sync.WaitGroup
	barrier := make(chan struct{})
	spawn := func(f func()) {
		wg.Add(1)
		d := time.Duration(r.intn(300)) * time.Microsecond
		go func() { defer wg.Done(); <-barrier; time.Sleep(d); f() }()
	}
	peerCloses := r.chance(60)
	if peerCloses {
		if r.chance(50) {
			spawn(func() { peer.Close() })
		} else {
			spawn(func() { vcRST(peer) })
		}
	}
	if r.chance(50) {
		spawn(func() { peer.Write([]byte("data-for-the-client")) })
	}
	// a blocked reader on the client (one reader is inside the contract)
	if r.chance(50) {
		spawn(func() { conn.Reader().Next(1 << 20) })
	}
	nclose := r.rng(1, 4)
	for i := 0; i < nclose; i++ {
		spawn(func() { conn.Close() })
	}
	close(barrier)
	wg.Wait()
	vcSetPlan(nil)
	conn.Close()
	if !rec.waitClosed(10 * time.Second) {
		t.Violate("C05", "never_torn_down", "client connection without callbacks: Close returned %d time(s) but the close callbacks did not run (history %v)", nclose+1, rec.history())
		sampler.Stop()
		return
	}
	if !vcWaitPoint(mark, vpFinalizerAfterClose, rec.ID, 10*time.Second) {
		t.Inconclusive("finalizer end not seen 10s after the user callbacks ran")
		sampler.Stop()
		return
	}
	time.Sleep(500 * time.Microsecond)
	conn.Close()
	if !sampler.Stop() {
		t.Violate("C05", "isactive_revived", "IsActive returned true after it had returned false")
	}
	if msg := rec.checkCloseCallbacks(); msg != "" {
		t.Violate("C05", "close_callbacks", "client connection: %s (history %v)", msg, rec.history())
	}
	if closes := audit.closesOfRec(rec); len(closes) != 1 {
		t.Violate("C05", "descriptor_closes", "client connection: descriptor closed %d time(s), want 1", len(closes))
	}
	if n := audit.freeablesOf(opPtr, ownedSeq); n != 1 {
		t.Violate("C05", "registration_release", "client connection: poller registration released %d time(s), want 1", n)
	}
	evs := vcTraceSince(mark)
	sig, nt := vc05Signature(evs, rec.ID, vc05Cfg{Handler: "client"}, t.Plan)
	t.Sig, t.Nontrivial = sig, nt || (peerCloses && nclose > 0)
}

// vcRunC05PrepareClose: the user closes the connection inside OnPrepare (before it is registered
// with the poller): no handler can ever run for it, so by the time the accept path is through,
// the close callbacks must have run exactly once and the descriptor must be closed exactly once.
func vcRunC05PrepareClose(t *vcTrial, closes int, network string) {
	t.P("variant", "close-in-OnPrepare")
	t.P("closes", closes)
	audit := vcStartAudit()
	var opPtr uintptr
	var ownedSeq uint64
	so := vcSrvOpts{Network: network, NCloseCb: 3}
	so.OnPrepare = func(rec *vcConnRec) {
		opPtr = vcObjID(vcInner(rec.Conn).operator)
		ownedSeq = vfNextSeq()
		for i := 0; i < closes; i++ {
			rec.Conn.Close()
		}
	}
	so.OnRequest = func(ctx context.Context, rec *vcConnRec) error {
		rec.Conn.Reader().Skip(rec.Conn.Reader().Len())
		return nil
	}
	srv, err := vcStartServer(so)
	if err != nil {
		t.Inconclusive("server start: %v", err)
		return
	}
	defer srv.Stop(3 * time.Second)
	cli, err := vcDialRaw(srv)
	if err != nil {
		t.Inconclusive("dial: %v", err)
		return
	}
	defer cli.Close()
	cli.Write([]byte("request-for-a-refused-connection"))
	rec := srv.nextAccepted(5 * time.Second) // returns after the accept path finished with the connection
	if rec == nil {
		t.Inconclusive("accept not seen")
		return
	}
	time.Sleep(500 * time.Microsecond)
	if !rec.waitClosed(2 * time.Second) {
		t.Violate("C05", "never_torn_down", "Close() was called %d time(s) inside OnPrepare and returned; the connection was never registered, no handler can run for it, yet its close callbacks did not run (history %v)", closes, rec.history())
		return
	}
	if msg := rec.checkCloseCallbacks(); msg != "" {
		t.Violate("C05", "close_callbacks", "close inside OnPrepare: %s (history %v)", msg, rec.history())
	}
	// the peer must see the end of the connection
	cli.SetReadDeadline(time.Now().Add(3 * time.Second))
	buf := make([]byte, 16)
	if n, err := cli.Read(buf); err == nil || n > 0 {
		t.Violate("C05", "descriptor_closes", "the connection was closed inside OnPrepare but its peer still reads data / no end-of-stream (n=%d err=%v)", n, err)
	} else if ne, ok := err.(net.Error); ok && ne.Timeout() {
		t.Violate("C05", "descriptor_closes", "the connection was closed inside OnPrepare but its descriptor is still open 3s later (the peer sees no end-of-stream)")
	}
	if closesSeen := audit.closesOfRec(rec); len(closesSeen) != 1 && !t.Violated() {
		t.Violate("C05", "descriptor_closes", "close inside OnPrepare: descriptor closed %d time(s), want 1", len(closesSeen))
	}
	if n := audit.freeablesOf(opPtr, ownedSeq); n != 1 && !t.Violated() {
		t.Violate("C05", "registration_release", "close inside OnPrepare: poller slot released %d time(s), want 1", n)
	}
	t.Nontrivial, t.Sig = true, fmt.Sprintf("prepare-close|%s|k=%d", network, closes)
}

// vcRunC05DetachThenClose: two user-side calls, Detach() and then Close(). Detach comes while the
// handler task still holds the processing lock (it cannot detach and leaves the teardown to
// "whoever holds the lock"); Close comes right after the task released the lock and before the
// task's own re-check. The calls are placed with the hook callbacks, on the task's goroutine, so the
// order is exact. Whatever path tears the connection down, the descriptor handed back to the user
// must be deregistered from netpoll's epoll instance.
func vcRunC05DetachThenClose(t *vcTrial) {
	t.P("variant", "detach-under-lock-then-close-in-the-unlock-window")
	audit := vcStartAudit()
	_ = audit
	epfd := -1
	var connID uintptr
	so := vcSrvOpts{Network: "unix", NCloseCb: 3}
	so.OnPrepare = func(rec *vcConnRec) {
		connID = rec.ID
		if dp, ok := vcInner(rec.Conn).operator.poll.(*defaultPoll); ok {
			epfd = dp.fd
		}
	}
	so.OnRequest = func(ctx context.Context, rec *vcConnRec) error {
		rec.Conn.Reader().Skip(rec.Conn.Reader().Len())
		return nil
	}
	srv, err := vcStartServer(so)
	if err != nil {
		t.Inconclusive("server start: %v", err)
		return
	}
	defer srv.Stop(3 * time.Second)
	cli, err := vcDialRaw(srv)
	if err != nil {
		t.Inconclusive("dial: %v", err)
		return
	}
	defer cli.Close()
	rec := srv.nextAccepted(3 * time.Second)
	if rec == nil {
		t.Inconclusive("accept not seen")
		return
	}
	var stage int32
	var detachErr, closeErr atomic.Value
	vcPointCallback.Store(func(id int, obj uintptr, arg int) {
		if obj != connID {
			return
		}
		switch {
		case id == vpProcessBeforeUnlock && atomic.CompareAndSwapInt32(&stage, 0, 1):
			// the task holds the processing lock and has made its last close check
			detachErr.Store(fmt.Sprint(vcInner(rec.Conn).Detach()))
		case id == vpProcessAfterUnlock && atomic.CompareAndSwapInt32(&stage, 1, 2):
			// the lock is free, the task has not re-checked yet
			closeErr.Store(fmt.Sprint(rec.Conn.Close()))
		}
	})
	defer vcPointCallback.Store(func(id int, obj uintptr, arg int) {})
	cli.Write([]byte("one-request"))
	if !rec.waitClosed(5 * time.Second) {
		if atomic.LoadInt32(&stage) < 2 {
			t.Inconclusive("the task did not pass the two points (stage %d)", atomic.LoadInt32(&stage))
		} else {
			t.Violate("C05", "never_torn_down", "Detach() and Close() both returned (%v, %v) but the close callbacks never ran (history %v)", detachErr.Load(), closeErr.Load(), rec.history())
		}
		return
	}
	vcWaitPoint(t.Mark, vpFinalizerAfterClose, rec.ID, 5*time.Second)
	time.Sleep(300 * time.Microsecond)
	if msg := rec.checkCloseCallbacks(); msg != "" {
		t.Violate("C05", "close_callbacks", "Detach then Close: %s (history %v)", msg, rec.history())
	}
	if open, _, _ := vcFstat(rec.FD); open {
		if epfd >= 0 {
			var ev epollevent
			if err := EpollCtl(epfd, syscall.EPOLL_CTL_DEL, rec.FD, &ev); err == nil {
				t.Violate("C05", "registration_left", "Detach() found the handler task holding the lock, Close() followed in the window after the task's unlock: the connection was torn down (close callbacks done, poller slot released) without EPOLL_CTL_DEL - detached descriptor %d was still registered with netpoll's epoll instance (history %v)", rec.FD, rec.history())
			}
		}
		syscall.Close(rec.FD)
	} else {
		t.Violate("C05", "descriptor_closes", "Detach() returned %v, yet netpoll closed descriptor %d", detachErr.Load(), rec.FD)
	}
	t.Nontrivial = atomic.LoadInt32(&stage) == 2
	t.Sig = "detach-then-close"
}

// vcRunC05RegisterFails: the accepted connection cannot be registered with its poller
// (epoll_ctl(ADD) fails). The user has registered close callbacks in OnPrepare and holds the
// Connection: the teardown netpoll performs on that error path must be the ordinary one - close
// callbacks once and in order, descriptor closed once, slot released once - and a later Close by
// the user must find nothing left to do.
func vcRunC05RegisterFails(t *vcTrial) {
	r := t.R
	t.P("variant", "registration of an accepted connection fails")
	audit := vcStartAudit()
	var opPtr uintptr
	var ownedSeq uint64
	so := vcSrvOpts{Network: []string{"tcp", "unix"}[r.intn(2)], NCloseCb: 3}
	so.OnPrepare = func(rec *vcConnRec) {
		opPtr = vcObjID(vcInner(rec.Conn).operator)
		ownedSeq = vfNextSeq()
	}
	so.OnRequest = func(ctx context.Context, rec *vcConnRec) error {
		rec.Conn.Reader().Skip(rec.Conn.Reader().Len())
		return nil
	}
	srv, err := vcStartServer(so)
	if err != nil {
		t.Inconclusive("server start: %v", err)
		return
	}
	defer srv.Stop(3 * time.Second)
	errno := []syscall.Errno{syscall.ENOMEM, syscall.ENOSPC, syscall.EPERM}[r.intn(3)]
	fp := &vcFaultPlan{Rules: []*vcFaultRule{{Site: vfltEpollCtlAdd, Errno: errno, FD: -1, Count: 1}}}
	vcSetFaults(fp)
	defer vcSetFaults(nil)
	cli, err := vcDialRaw(srv)
	if err != nil {
		t.Inconclusive("dial: %v", err)
		return
	}
	defer cli.Close()
	var rec *vcConnRec
	for dl := time.Now().Add(3 * time.Second); rec == nil && time.Now().Before(dl); {
		srv.recs.Range(func(k, v interface{}) bool { rec = v.(*vcConnRec); return false })
		time.Sleep(100 * time.Microsecond)
	}
	vcSetFaults(nil)
	if rec == nil || fp.Fired() == 0 {
		t.Inconclusive("the failing registration did not happen (fired %d)", fp.Fired())
		return
	}
	if !rec.waitClosed(3 * time.Second) {
		if vcRunnerProgress(5, 5*time.Second) {
			t.Violate("C05", "never_torn_down", "epoll_ctl(ADD) failed with %v for an accepted connection whose OnPrepare had registered close callbacks: the connection is not active (%v) but its close callbacks did not run (history %v)", errno, !rec.Conn.IsActive(), rec.history())
		} else {
			t.Inconclusive("close callbacks not seen, canary without progress")
		}
		return
	}
	// the connection's own finalizer (registered first, runs last) closes the descriptor and releases
	// the slot: wait for its last hook event before counting anything
	if !vcWaitPoint(t.Mark, vpFinalizerAfterClose, rec.ID, 10*time.Second) {
		t.Inconclusive("finalizer end not seen 10s after the user callbacks ran")
		return
	}
	time.Sleep(500 * time.Microsecond)
	func() {
		defer func() {
			if p := recover(); p != nil {
				t.Violate("C05", "close_panics", "Close() by the user after the failed registration had torn the connection down panicked: %v", p)
			}
		}()
		rec.Conn.Close()
	}()
	time.Sleep(500 * time.Microsecond)
	if msg := rec.checkCloseCallbacks(); msg != "" && !t.Violated() {
		t.Violate("C05", "close_callbacks", "failed registration: %s (history %v)", msg, rec.history())
	}
	if n := len(audit.closesOfRec(rec)); n != 1 && !t.Violated() {
		t.Violate("C05", "descriptor_closes", "failed registration: descriptor %d closed %d time(s), want 1", rec.FD, n)
	}
	// ... by whichever owner: the accept path holds a second handle (the Conn it was given) on the
	// same number; no other netpoll descriptor exists in this trial that could have taken the number
	audit.mu.Lock()
	nAny, notOpen := 0, 0
	for _, e := range audit.fds {
		if e.Kind < 0 && e.FD == rec.FD {
			nAny++
			if !e.Open {
				notOpen++
			}
		}
	}
	audit.mu.Unlock()
	if (nAny != 1 || notOpen > 0) && !t.Violated() {
		t.Violate("C05", "descriptor_closes", "failed registration: close was issued %d time(s) on descriptor number %d (%d of them when it was not open), want once", nAny, rec.FD, notOpen)
	}
	if n := audit.freeablesOf(opPtr, ownedSeq); n != 1 && !t.Violated() {
		t.Violate("C05", "registration_release", "failed registration: poller slot released %d time(s), want 1", n)
	}
	t.Nontrivial, t.Sig = true, "register-fails"
}
