// C15: every descriptor netpoll owns is closed exactly once, and no other.
package netpoll

import (
	"context"
	"fmt"
	"io/ioutil"
	"net"
	"os"
	"path/filepath"
	"sync"
	"sync/atomic"
	"syscall"
	"time"
)

func init() {
	vcScenarios["C15"] = vcScenC15
	vcDirected["C15"] = []vcScenario{
		// D7: listener closed once / twice, created both ways
		func(t *vcTrial) { vcRunC15(t, []string{"listener-create-tcp", "listener-convert-unix", "listener-twice"}, 1, true) },
		func(t *vcTrial) { vcRunC15(t, []string{"server-shutdown", "server-user-close"}, 1, false) },
		func(t *vcTrial) { vcRunC15(t, []string{"dial-refused", "dial-timeout", "dial-ok", "fdconn", "detach", "accept-peerclose"}, 2, true) },
		func(t *vcTrial) { vcRunDialStorm(t, "C15", 240000, 8) }, // the self-connect redial path of failed dials
		func(t *vcTrial) { vcRunC15(t, []string{"fault-dial", "fault-accept", "fault-io", "fault-poller", "fault-fdconn", "fault-dial-unix", "fault-poller", "fault-dial"}, 1, true) },
	}
}

var vc15Kinds = []string{
	"accept-userclose", "accept-peerclose", "accept-rst", "dial-ok", "dial-refused", "dial-timeout", "dial-unix-missing",
	"fdconn", "fdconn-unpollable", "accept-prepare-close", "detach", "listener-create-tcp", "listener-create-unix", "listener-convert-tcp", "listener-convert-unix",
	"listener-twice", "server-shutdown", "server-user-close", "poller-grow-shrink",
}

func vcScenC15(t *vcTrial) {
	r := t.R
	if r.chance(35) {
		// error paths: lifecycles whose system calls fail (sequential: the fault plan is process-wide)
		n := r.rng(2, 8)
		var acts []string
		for i := 0; i < n; i++ {
			if r.chance(75) {
				acts = append(acts, vc15FaultKinds[r.intn(len(vc15FaultKinds))])
			} else {
				acts = append(acts, vc15Kinds[r.intn(len(vc15Kinds))])
			}
		}
		vcRunC15(t, acts, 1, r.chance(70))
		return
	}
	n := r.rng(3, 14)
	var acts []string
	for i := 0; i < n; i++ {
		acts = append(acts, vc15Kinds[r.intn(len(vc15Kinds))])
	}
	vcRunC15(t, acts, r.rng(1, 4), r.chance(70))
}

// vc15Ledger replays the adopt/close audit: key = descriptor number, value = inode at adoption.
type vc15Own struct {
	ino  uint64
	sock bool
	kind int
	seq  uint64
}

func vc15Judge(a *vcAudit, harnessClosed map[int]bool) (violation string, owned map[int]vc15Own, closes int, reissued int) {
	a.mu.Lock()
	evs := append([]vcFDEv(nil), a.fds...)
	a.mu.Unlock()
	owned = map[int]vc15Own{}
	for _, e := range evs {
		if e.Kind > 0 {
			if !e.Open {
				continue // adoption of a number that is not open: nothing to own
			}
			owned[e.FD] = vc15Own{ino: e.Ino, sock: e.Sock, kind: e.Kind, seq: e.Seq}
			continue
		}
		closes++
		kind := -e.Kind
		o, ok := owned[e.FD]
		switch {
		case !e.Open:
			return fmt.Sprintf("close(%d) issued at call site kind %d on a descriptor number that is not open at that moment (it was closed before: double close)", e.FD, kind), owned, closes, reissued
		case !ok:
			return fmt.Sprintf("close(%d) issued at call site kind %d on a descriptor netpoll does not own at that moment (never adopted, or already closed by netpoll and the number re-issued to somebody else)", e.FD, kind), owned, closes, reissued
		case o.sock && e.Sock && o.ino != e.Ino:
			reissued++
			return fmt.Sprintf("close(%d) issued at call site kind %d, but the number now belongs to another socket (inode %d, netpoll adopted inode %d): the descriptor had been closed and re-issued", e.FD, kind, e.Ino, o.ino), owned, closes, reissued
		}
		delete(owned, e.FD)
	}
	return "", owned, closes, reissued
}

func vcRunC15(t *vcTrial, acts []string, workers int, churn bool) {
	r := t.R
	t.P("actions", acts)
	t.P("workers", workers)
	t.P("fd_churn", churn)
	tmp := vcTempDir()
	before := vcOpenFDs()
	audit := vcStartAudit()
	// concurrent open/close on other goroutines: freed numbers are re-issued within microseconds,
	// so a stale or doubled close hits somebody else's descriptor (and the audit sees another inode)
	var stopChurn int32
	var churnWG sync.WaitGroup
	var churned int64
	if churn {
		for i := 0; i < 2; i++ {
			churnWG.Add(1)
			go func() {
				defer churnWG.Done()
				for atomic.LoadInt32(&stopChurn) == 0 {
					fds, err := syscall.Socketpair(syscall.AF_UNIX, syscall.SOCK_STREAM, 0)
					if err == nil {
						syscall.Close(fds[0])
						syscall.Close(fds[1])
						atomic.AddInt64(&churned, 1)
					}
					time.Sleep(5 * time.Microsecond)
				}
			}()
		}
	}
	var detachedMu sync.Mutex
	harnessClosed := map[int]bool{}
	seeds := make([]uint64, len(acts))
	for i := range seeds {
		seeds[i] = r.next()
	}
	var wg sync.WaitGroup
	sem := make(chan struct{}, workers)
	var sockSeq uint64
	for i, act := range acts {
		wg.Add(1)
		sem <- struct{}{}
		go func(i int, act string) {
			defer wg.Done()
			defer func() { <-sem }()
			ar := vfNewRng(seeds[i])
			vc15Act(t, act, ar, tmp, &sockSeq, func(fd int) {
				detachedMu.Lock()
				harnessClosed[fd] = true
				detachedMu.Unlock()
			})
		}(i, act)
	}
	wg.Wait()
	atomic.StoreInt32(&stopChurn, 1)
	churnWG.Wait()
	// ---- wait for the asynchronous part of teardown, then judge
	var viol string
	var owned map[int]vc15Own
	closes, reissued := 0, 0
	for dl := time.Now().Add(4 * time.Second); ; {
		viol, owned, closes, reissued = vc15Judge(audit, harnessClosed)
		if viol != "" || len(owned) == 0 || time.Now().After(dl) {
			break
		}
		time.Sleep(time.Millisecond)
	}
	if viol != "" {
		t.Violate("C15", "close_audit", "%s", viol)
		return
	}
	if len(owned) > 0 {
		var l []string
		for fd, o := range owned {
			l = append(l, fmt.Sprintf("fd %d (kind %d)", fd, o.kind))
		}
		t.Violate("C15", "not_closed", "after every connection, listener and event loop was closed netpoll still owns %d descriptor(s) it never closed: %v", len(owned), l)
		return
	}
	var diff []string
	for dl := time.Now().Add(3 * time.Second); ; {
		diff = vcFDDiff(before, vcOpenFDs())
		if len(diff) == 0 || time.Now().After(dl) {
			break
		}
		time.Sleep(2 * time.Millisecond)
	}
	if len(diff) > 0 {
		t.Violate("C15", "census", "after every connection, listener and event loop was closed the process holds %d descriptor(s) more than before: %v", len(diff), diff)
		return
	}
	// "never issues close on a descriptor number it does not own": everything that was open before
	// the trial (standard streams, the harness's files, the long-lived pollers) is still there
	after := vcOpenFDs()
	var gone []string
	for fd, l := range before {
		if l2, ok := after[fd]; !ok {
			gone = append(gone, fmt.Sprintf("%d (%s)", fd, l))
		} else if l2 != l {
			gone = append(gone, fmt.Sprintf("%d (%s, now %s)", fd, l, l2))
		}
	}
	if len(gone) > 0 {
		t.Violate("C15", "foreign_close", "descriptor(s) that were open before the trial and belong to nobody in it were closed or replaced: %v", gone)
		return
	}
	t.Stat("closes_audited", closes)
	t.Stat("lifecycles", len(acts))
	t.Stat("numbers_churned_by_bystanders", int(atomic.LoadInt64(&churned)))
	_ = reissued
	t.Nontrivial = closes > 0
	kinds := map[string]bool{}
	for _, a := range acts {
		kinds[a] = true
	}
	t.Sig = fmt.Sprintf("kinds=%d|workers=%d|churn=%v|closes=%d", len(kinds), workers, churn, vcMinInt(closes/4, 6))
}

func vc15Act(t *vcTrial, act string, r *vfRng, tmp string, sockSeq *uint64, detached func(fd int)) {
	unixPath := func() string { return filepath.Join(tmp, fmt.Sprintf("c15-%d.sock", atomic.AddUint64(sockSeq, 1)+atomic.AddUint64(&vcSockSeq, 1)*1000)) }
	switch act {
	case "accept-userclose", "accept-peerclose", "accept-rst", "detach":
		srv, err := vcStartServer(vcSrvOpts{Network: []string{"tcp", "unix"}[r.intn(2)], NCloseCb: 1, OnRequest: func(ctx context.Context, rec *vcConnRec) error {
			rec.Conn.Reader().Skip(rec.Conn.Reader().Len())
			return nil
		}})
		if err != nil {
			return
		}
		n := r.rng(1, 4)
		for i := 0; i < n; i++ {
			raw, err := vcDialRaw(srv)
			if err != nil {
				continue
			}
			rec := srv.nextAccepted(2 * time.Second)
			if r.chance(50) {
				raw.Write([]byte("x"))
			}
			switch act {
			case "accept-userclose":
				if rec != nil {
					rec.Conn.Close()
				}
				raw.Close()
			case "accept-peerclose":
				raw.Close()
			case "accept-rst":
				vcRST(raw)
			case "detach":
				if rec != nil {
					vcInner(rec.Conn).Detach()
					rec.waitClosed(2 * time.Second)
					// the descriptor is the user's again: close it here and tell the ledger
					fd := rec.FD
					if cur, _ := vcAuditPtr.Load().(*vcAudit); cur != nil {
						cur.mu.Lock()
						cur.fds = append(cur.fds, vcFDEv{Seq: vfNextSeq(), Kind: -99, Owner: 0, FD: fd, Open: true, Ino: 0, Sock: false})
						cur.mu.Unlock()
					}
					syscall.Close(fd)
					detached(fd)
				}
				raw.Close()
			}
			if rec != nil {
				rec.waitClosed(2 * time.Second)
			}
		}
		srv.Stop(2 * time.Second)
	case "accept-prepare-close":
		// the user refuses connections inside OnPrepare (e.g. a limiter): the accepted descriptor
		// must be closed exactly once
		srv, err := vcStartServer(vcSrvOpts{Network: []string{"tcp", "unix"}[r.intn(2)], NCloseCb: 1,
			OnPrepare: func(rec *vcConnRec) { rec.Conn.Close() },
			OnRequest: func(ctx context.Context, rec *vcConnRec) error {
				rec.Conn.Reader().Skip(rec.Conn.Reader().Len())
				return nil
			}})
		if err != nil {
			return
		}
		for i := 0; i < r.rng(1, 6); i++ {
			if raw, err := vcDialRaw(srv); err == nil {
				srv.nextAccepted(2 * time.Second)
				raw.Close()
			}
		}
		srv.Stop(2 * time.Second)
	case "fdconn-unpollable":
		// a descriptor that cannot be registered with epoll (a regular file): NewFDConnection fails;
		// having adopted the descriptor it must not leave it open (and must close it only once)
		f, err := ioutil.TempFile(tmp, "c15-file")
		if err != nil {
			return
		}
		fd, err := syscall.Dup(int(f.Fd()))
		f.Close()
		os.Remove(f.Name())
		if err != nil {
			return
		}
		if c, err := NewFDConnection(fd); err == nil {
			c.Close()
		}
	case "dial-ok":
		ln, err := net.Listen("tcp", "127.0.0.1:0")
		if err != nil {
			return
		}
		go func() {
			for {
				c, err := ln.Accept()
				if err != nil {
					return
				}
				go func() { time.Sleep(time.Millisecond); c.Close() }()
			}
		}()
		for i := 0; i < r.rng(1, 4); i++ {
			c, err := DialConnection("tcp", ln.Addr().String(), time.Second)
			if err == nil {
				if r.chance(50) {
					time.Sleep(2 * time.Millisecond) // the peer closes first
				}
				c.Close()
			}
		}
		ln.Close()
	case "dial-refused":
		ln, err := net.Listen("tcp", "127.0.0.1:0")
		if err != nil {
			return
		}
		addr := ln.Addr().String()
		ln.Close()
		for i := 0; i < r.rng(1, 3); i++ {
			if c, err := DialConnection("tcp", addr, 200*time.Millisecond); err == nil {
				c.Close()
			}
		}
	case "dial-timeout":
		if c, err := DialConnection("tcp", "127.0.0.1:1", time.Duration(r.rng(1, 50))*time.Microsecond); err == nil {
			c.Close()
		}
	case "dial-unix-missing":
		if c, err := DialConnection("unix", filepath.Join(tmp, "missing.sock"), 100*time.Millisecond); err == nil {
			c.Close()
		}
	case "fdconn":
		fds, err := syscall.Socketpair(syscall.AF_UNIX, syscall.SOCK_STREAM, 0)
		if err != nil {
			return
		}
		c, err := NewFDConnection(fds[0])
		if err != nil {
			syscall.Close(fds[0])
			syscall.Close(fds[1])
			return
		}
		if r.chance(50) {
			syscall.Close(fds[1])
			time.Sleep(time.Millisecond)
			c.Close()
		} else {
			c.Close()
			syscall.Close(fds[1])
		}
	case "listener-create-tcp", "listener-create-unix", "listener-convert-tcp", "listener-convert-unix", "listener-twice":
		network, addr := "tcp", "127.0.0.1:0"
		if act == "listener-create-unix" || act == "listener-convert-unix" || (act == "listener-twice" && r.chance(50)) {
			network, addr = "unix", unixPath()
		}
		var ln Listener
		var err error
		if act == "listener-convert-tcp" || act == "listener-convert-unix" {
			var std net.Listener
			std, err = net.Listen(network, addr)
			if err != nil {
				return
			}
			ln, err = ConvertListener(std)
			if err != nil {
				std.Close()
				return
			}
		} else {
			ln, err = CreateListener(network, addr)
			if err != nil {
				return
			}
		}
		if r.chance(50) {
			// one client in the backlog
			if c, err := net.DialTimeout(network, ln.Addr().String(), time.Second); err == nil {
				defer c.Close()
			}
		}
		ln.Close()
		if act == "listener-twice" {
			ln.Close()
		}
		if network == "unix" {
			os.Remove(addr)
		}
	case "server-shutdown", "server-user-close":
		srv, err := vcStartServer(vcSrvOpts{Network: []string{"tcp", "unix"}[r.intn(2)], NCloseCb: 1, OnRequest: func(ctx context.Context, rec *vcConnRec) error {
			rec.Conn.Reader().Skip(rec.Conn.Reader().Len())
			return nil
		}})
		if err != nil {
			return
		}
		var raws []net.Conn
		for i := 0; i < r.rng(0, 4); i++ {
			if raw, err := vcDialRaw(srv); err == nil {
				raws = append(raws, raw)
				srv.nextAccepted(time.Second)
			}
		}
		if act == "server-user-close" {
			// the user closes the listener himself; then Shutdown (closes it again)
			srv.Ln.Close()
		}
		srv.Stop(2 * time.Second)
		for _, c := range raws {
			c.Close()
		}
	case "fault-dial", "fault-dial-unix", "fault-accept", "fault-io", "fault-poller", "fault-fdconn":
		vc15FaultAct(t, act, r, tmp, unixPath)
	case "poller-grow-shrink":
		// private manager: pollers opened by growth, closed by shrink and by Close
		m := newManager(r.rng(1, 4))
		m.Pick()
		m.SetNumLoops(r.rng(1, 6))
		m.Pick()
		m.SetNumLoops(1)
		m.Pick()
		m.Close()
	}
}
