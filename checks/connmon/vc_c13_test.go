// C13: the server tracks every accepted connection and shuts down gracefully.
package netpoll

import (
	"io"
	"context"
	"fmt"
	"net"
	"sync"
	"sync/atomic"
	"syscall"
	"time"
)

func init() {
	vcScenarios["C13"] = vcScenC13
	vcDirected["C13"] = []vcScenario{
		// D11: the client closes while onAccept sits between AddCloseCallback and Store
		func(t *vcTrial) { vcRunC13(t, vc13Cfg{Kind: "shutdown", Clients: 3, D11: true, DeadlineMs: 400}) },
		func(t *vcTrial) { vcRunC13(t, vc13Cfg{Kind: "shutdown", Clients: 1, D11: true, DeadlineMs: 400}) },
		func(t *vcTrial) { vcRunC13(t, vc13Cfg{Kind: "shutdown", Clients: 6, Hold: 2, DeadlineMs: 60}) },
		func(t *vcTrial) { vcRunC13(t, vc13Cfg{Kind: "shutdown", Clients: 4, Hold: 2, HoldGone: true}) },
		func(t *vcTrial) { vcRunC13(t, vc13Cfg{Kind: "shutdown", Network: "unix", Clients: 2, Hold: 1, HoldGone: true, DeadlineMs: 50}) },
		func(t *vcTrial) { vcRunC13(t, vc13Cfg{Kind: "emfile", Clients: 6}) },
		vcRunC13EmfileShutdown,
		vcRunC13EmfileLong,
		vcRunC13IdleThenBusy,
		vcRunC13PendingOutput,
		vcRunC13NoHandlers,
		vcRunC13NoHandlers,
		// before the accept path's first IsActive() check / before its post-Store re-check
		func(t *vcTrial) { vcRunC13ClosedDuringAccept(t, vpAcceptAfterInit) },
		func(t *vcTrial) { vcRunC13ClosedDuringAccept(t, vpAcceptAfterStore) },
	}
}

type vc13Cfg struct {
	Kind       string // shutdown | emfile
	Network    string
	Clients    int
	Hold       int // handlers held busy across the Shutdown call
	DeadlineMs int // Shutdown deadline; 0 = generous
	D11        bool
	S1         bool
	Jitter     bool
	HoldGone   bool // the peers of the held handlers hang up before Shutdown: closed by the poller, handler still running
}

func vcScenC13(t *vcTrial) {
	r := t.R
	cfg := vc13Cfg{Kind: "shutdown", Network: []string{"tcp", "unix"}[r.intn(2)], Clients: r.rng(1, 24)}
	if r.chance(12) {
		cfg.Kind = "emfile"
		cfg.Clients = r.rng(3, 10)
	}
	if r.chance(40) {
		cfg.Hold = r.rng(1, 3)
		if r.chance(60) {
			cfg.DeadlineMs = r.rng(20, 120)
		}
	}
	cfg.HoldGone = cfg.Hold > 0 && r.chance(40)
	cfg.D11 = r.chance(20)
	cfg.S1 = r.chance(20)
	cfg.Jitter = r.chance(40)
	vcRunC13(t, cfg)
}

// vc13ServerOf returns the server behind an event loop (Serve installs it asynchronously).
func vc13ServerOf(evl EventLoop) *server {
	e := evl.(*eventLoop)
	for dl := time.Now().Add(3 * time.Second); ; {
		e.Lock()
		s := e.svr
		e.Unlock()
		if s != nil || time.Now().After(dl) {
			return s
		}
		time.Sleep(50 * time.Microsecond)
	}
}

// vc13Tracked lists the server's table. An entry is *dead* only when the close callbacks of its
// connection have completed (they include the delete) and it is still there; a connection in
// the middle of its teardown is legitimately still tracked.
func vc13Tracked(s *server, recs []*vcConnRec) (fds []int, dead []string) {
	done := map[uintptr]bool{}
	for _, r := range recs {
		select {
		case <-r.done:
			done[r.ID] = true
		default:
		}
	}
	s.connections.Range(func(k, v interface{}) bool {
		fd, _ := k.(int)
		fds = append(fds, fd)
		if c, ok := v.(*connection); ok {
			if !c.IsActive() && done[vcObjID(c)] {
				dead = append(dead, fmt.Sprintf("fd=%d active=false close-callbacks-done=true", fd))
			}
		}
		return true
	})
	return
}

func vcRunC13(t *vcTrial, cfg vc13Cfg) {
	if cfg.Network == "" {
		cfg.Network = "tcp"
	}
	t.P("cfg", fmt.Sprintf("%+v", cfg))
	if cfg.Kind == "emfile" {
		vcRunC13Emfile(t, cfg)
		return
	}
	r := t.R
	audit := vcStartAudit()
	release := make(chan struct{})
	var relOnce sync.Once
	doRelease := func() { relOnce.Do(func() { close(release) }) }
	defer doRelease()
	var held int32
	var servedAfter int32
	var shutdownBegan int32
	var mu sync.Mutex
	recs := []*vcConnRec{}
	so := vcSrvOpts{Network: cfg.Network, NCloseCb: 1}
	so.OnPrepare = func(rec *vcConnRec) {
		rec.acceptedAt = vfNow()
		mu.Lock()
		recs = append(recs, rec)
		mu.Unlock()
	}
	so.OnRequest = func(ctx context.Context, rec *vcConnRec) error {
		c := rec.Conn
		n := c.Reader().Len()
		p, err := c.Reader().Next(n)
		if err != nil {
			return nil
		}
		hold := n > 0 && p[0] == 'H'
		first := byte(0)
		if n > 0 {
			first = p[0]
		}
		c.Reader().Release()
		if hold {
			atomic.AddInt32(&held, 1)
			<-release
		}
		// echo one byte so that the client can tell it was served
		if first != 0 {
			c.Writer().WriteByte(first)
			if c.Writer().Flush() == nil && atomic.LoadInt32(&shutdownBegan) == 1 {
				atomic.AddInt32(&servedAfter, 1)
			}
		}
		return nil
	}
	srv, err := vcStartServer(so)
	if err != nil {
		t.Inconclusive("server start: %v", err)
		return
	}
	svr := vc13ServerOf(srv.Evl)
	if svr == nil {
		t.Inconclusive("Serve did not start")
		return
	}
	lnFD := srv.Ln.Fd()
	mark := vcTraceMark()
	if cfg.Jitter {
		t.Plan = &vcPlan{Mode: vcModeJitter, Seed: r.next(), JitterPM: r.rng(50, 300), MaxSleep: time.Duration(r.rng(1, 300)) * time.Microsecond}
		vcSetPlan(t.Plan)
	}
	// ---- clients
	type cli struct {
		c      net.Conn
		kind   string
		closed bool
	}
	var clis []*cli
	var wg sync.WaitGroup
	dial := func(kind string) *cli {
		c, err := vcDialRaw(srv)
		if err != nil {
			return nil
		}
		return &cli{c: c, kind: kind}
	}
	if cfg.D11 {
		// connect-and-close-at-once while the accept path is parked right before Store
		plan := &vcPlan{Mode: vcModePause, P: vpAcceptBeforeStore, Q: vpFinalizerAfterClose, ArgQ: -1, Timeout: 40 * time.Millisecond}
		fastCh := make(chan net.Conn, 1)
		plan.OnPark = func() {
			select {
			case c := <-fastCh:
				if c != nil {
					c.Close()
				}
				fastCh <- nil
			case <-time.After(time.Second):
			}
		}
		vcSetPlan(plan)
		t.Plan = plan
		fast, _ := vcDialRaw(srv)
		fastCh <- fast
		vcWaitPoint(mark, vpAcceptBeforeStore, 0, 300*time.Millisecond)
		time.Sleep(45 * time.Millisecond)
		vcSetPlan(nil)
		select {
		case c := <-fastCh:
			if c != nil {
				c.Close()
			}
		default:
		}
	}
	for i := 0; i < cfg.Clients; i++ {
		kind := []string{"idle", "send", "send-close", "close", "rst"}[r.intn(5)]
		if i < cfg.Hold {
			kind = "hold"
		}
		cl := dial(kind)
		if cl == nil {
			continue
		}
		clis = append(clis, cl)
		wg.Add(1)
		d := time.Duration(r.intn(3000)) * time.Microsecond
		go func(cl *cli) {
			defer wg.Done()
			time.Sleep(d)
			switch cl.kind {
			case "hold":
				cl.c.Write([]byte("Hold-this-handler"))
			case "send":
				cl.c.Write([]byte("request"))
			case "send-close":
				cl.c.Write([]byte("request"))
				cl.c.Close()
				cl.closed = true
			case "close":
				cl.c.Close()
				cl.closed = true
			case "rst":
				vcRST(cl.c)
				cl.closed = true
			}
		}(cl)
	}
	defer func() {
		for _, cl := range clis {
			cl.c.Close()
		}
	}()
	// Shutdown at a random moment relative to the clients' actions
	time.Sleep(time.Duration(r.intn(4000)) * time.Microsecond)
	if cfg.Hold > 0 {
		// make sure the held handlers are really in progress when Shutdown starts
		dl := time.Now().Add(3 * time.Second)
		for int(atomic.LoadInt32(&held)) < cfg.Hold && time.Now().Before(dl) {
			time.Sleep(100 * time.Microsecond)
		}
		if cfg.HoldGone {
			// the peers hang up while their handlers are held: the connections are closed (by the
			// poller) but not torn down - they stay tracked until the handlers return
			wg.Wait()
			hmark := vcTraceMark()
			n := 0
			for _, cl := range clis {
				if cl.kind == "hold" {
					if n%2 == 0 {
						cl.c.Close()
					} else {
						vcRST(cl.c)
					}
					cl.closed = true
					n++
				}
			}
			for dl := time.Now().Add(time.Second); time.Now().Before(dl); {
				seen := 0
				for _, e := range vcTraceSince(hmark) {
					if int(e.Point) == vpOnHupAfterCloseBy {
						seen++
					}
				}
				if seen >= n {
					break
				}
				time.Sleep(200 * time.Microsecond)
			}
			t.Stat("held_handlers_whose_peer_hung_up", n)
		}
	}
	if cfg.S1 {
		// data arrives for idle connections exactly while Shutdown is between isIdle and Close
		plan := &vcPlan{Mode: vcModePause, P: vpServerCloseIdle, Q: vpTaskStart, ArgQ: -1, Timeout: 20 * time.Millisecond}
		plan.OnPark = func() {
			for _, cl := range clis {
				if cl.kind == "idle" {
					cl.c.Write([]byte("late-request"))
				}
			}
		}
		vcSetPlan(plan)
		t.Plan = plan
	}
	deadline := 10 * time.Second
	if cfg.DeadlineMs > 0 {
		deadline = time.Duration(cfg.DeadlineMs) * time.Millisecond
	}
	ctx, cancel := context.WithTimeout(context.Background(), deadline)
	defer cancel()
	atomic.StoreInt32(&shutdownBegan, 1)
	t0 := time.Now()
	t0mono := vfNow()
	if cfg.Hold > 0 && cfg.DeadlineMs == 0 {
		// release the held handlers some time after Shutdown began
		go func() {
			time.Sleep(time.Duration(r.rng(5, 80)) * time.Millisecond)
			doRelease()
		}()
	}
	shErr := srv.Evl.Shutdown(ctx)
	retAt := time.Now()
	_ = t0
	mu.Lock()
	recsNow := append([]*vcConnRec(nil), recs...)
	mu.Unlock()
	tracked, dead := vc13Tracked(svr, recsNow)
	if len(dead) > 0 {
		// the delete is the last but one close callback: give a teardown in progress a moment
		time.Sleep(20 * time.Millisecond)
		_, dead = vc13Tracked(svr, recsNow)
	}
	vcSetPlan(nil)
	if srv.Network == "unix" {
		defer syscall.Unlink(srv.Addr)
	}
	switch {
	case shErr == nil:
		// ---- returns nil only when no tracked connection remains
		// was an accept in flight when Shutdown began? (OnPrepare or the Store into the server's table
		// happened after Shutdown was called)
		stored := map[uintptr]int64{}
		for _, e := range vcTraceSince(mark) {
			if int(e.Point) == vpAcceptAfterStore {
				stored[e.Obj] = e.T
			}
		}
		lateAccepts := 0
		mu.Lock()
		for _, rec := range recs {
			st, ok := stored[rec.ID]
			if rec.acceptedAt > t0mono || (ok && st > t0mono) || (!ok && rec.Conn.IsActive()) {
				lateAccepts++
			}
		}
		mu.Unlock()
		late := ""
		if lateAccepts > 0 {
			late = fmt.Sprintf(" [the accept of %d connection(s) was in flight when Shutdown began]", lateAccepts)
		}
		if len(tracked) != 0 {
			t.Violate("C13", "nil_with_tracked", "Shutdown returned nil but %d connection(s) are still tracked (fds %v; dead entries %v)%s", len(tracked), tracked, dead, late)
		}
		// every accepted connection went through its close callbacks and its descriptor is closed
		mu.Lock()
		all := append([]*vcConnRec(nil), recs...)
		mu.Unlock()
		for _, rec := range all {
			if !rec.waitClosed(2 * time.Second) {
				c := vcInner(rec.Conn)
				// root cause from the trace: closed by the peer's hang-up before the accept path had
				// stored it (D30), as opposed to an accept that was in flight when Shutdown began (D15)
				why := ""
				if late == "" && atomic.LoadInt32(&rec.depth) > 0 && vc13HupDuringAccept(vcTraceSince(mark), rec.ID) {
					why = " [" + vc13ClosedWhileAccepted + "]"
				}
				t.Violate("C13", "nil_with_open_connection", "Shutdown returned nil but accepted connection fd=%d has not run its close callbacks (active=%v, history %v)%s%s", rec.FD, c.IsActive(), rec.history(), late, why)
				break
			}
			vcWaitPoint(mark, vpFinalizerAfterClose, rec.ID, 2*time.Second)
			if n := len(audit.closesOfRec(rec)); n != 1 {
				t.Violate("C13", "descriptor_not_closed", "Shutdown returned nil; descriptor %d of an accepted connection was closed %d times", rec.FD, n)
				break
			}
		}
		// listener descriptor closed
		if open, _, sock := vcFstat(lnFD); open && sock {
			// the number may have been re-issued to somebody else; only a *listening* socket is ours
			if v, err := syscall.GetsockoptInt(lnFD, syscall.SOL_SOCKET, syscall.SO_ACCEPTCONN); err == nil && v == 1 {
				t.Violate("C13", "listener_open", "Shutdown returned nil but listener descriptor %d is still a listening socket", lnFD)
			}
		}
		// Serve returns
		select {
		case <-srv.ServeErr:
		case <-time.After(5 * time.Second):
			t.Violate("C13", "serve_not_returned", "Shutdown returned nil but Serve has not returned after 5s")
		}
		if cfg.Hold > 0 && !cfg.HoldGone && cfg.DeadlineMs == 0 && int(atomic.LoadInt32(&held)) == cfg.Hold && atomic.LoadInt32(&servedAfter) == 0 {
			t.Violate("C13", "busy_not_served", "handlers held across Shutdown were released but none of them could answer afterwards")
		}
	case shErr == context.DeadlineExceeded:
		if dl, ok := ctx.Deadline(); ok && retAt.Before(dl) {
			t.Violate("C13", "early_deadline", "Shutdown returned the context error %v before the context's deadline", dl.Sub(retAt))
		}
		// legitimate only while something is still tracked; dead entries are not a reason
		if cfg.Hold == 0 || int(atomic.LoadInt32(&held)) == 0 {
			// nothing was held: every connection was idle or closing; a deadline here needs a live busy connection
			live := 0
			for range tracked {
				live++
			}
			if len(dead) > 0 && len(dead) == len(tracked) {
				t.Violate("C13", "dead_entry", "Shutdown ran into its %v deadline although every tracked entry is a connection that is already closed: %v", deadline, dead)
			}
		}
		if len(dead) > 0 && !t.Violated() {
			t.Violate("C13", "dead_entry", "the server still tracks connection(s) that are already closed: %v", dead)
		}
		// busy ones keep running: the held handlers' connections are still active
		mu.Lock()
		for _, rec := range recs {
			if atomic.LoadInt32(&rec.depth) > 0 && !rec.Conn.IsActive() && !vcSeenSince(mark, vpOnHupAfterCloseBy, rec.ID) {
				// (a connection the peer's hang-up closed is not Shutdown's doing)
				// root cause from the trace: was the connection idle when Shutdown's close pass looked at
				// it (and became busy before the Close call landed), or busy all along?
				var tIdle, tTask int64
				for _, e := range vcTraceSince(mark) {
					if e.Obj != rec.ID {
						continue
					}
					switch int(e.Point) {
					case vpServerCloseIdle:
						if tIdle == 0 {
							tIdle = e.T
						}
					case vpTaskStart:
						tTask = e.T
					}
				}
				how := "it was busy when the close pass looked at it"
				if tIdle != 0 && tTask > tIdle {
					how = fmt.Sprintf("the close pass found it idle, a request arrived and its handler started %dus later, then the close pass's Close() landed", (tTask-tIdle)/1000)
				}
				t.Violate("C13", "busy_closed", "a connection whose handler was still running was closed by Shutdown (fd=%d): %s", rec.FD, how)
			}
		}
		mu.Unlock()
		doRelease()
	default:
		t.Violate("C13", "shutdown_error", "Shutdown returned %v", shErr)
	}
	doRelease()
	wg.Wait()
	t.Stat("clients", len(clis))
	t.Stat("accepted", int(atomic.LoadInt32(&srv.nacc)))
	t.Stat("held_handlers", int(atomic.LoadInt32(&held)))
	if t.Plan != nil && t.Plan.Mode == vcModePause {
		t.Stat("pause_pairs_attempted", 1)
		if t.Plan.Parked() {
			t.Stat("pause_points_parked", 1)
		}
	}
	out := "nil"
	if shErr != nil {
		out = "deadline"
	}
	t.Nontrivial = atomic.LoadInt32(&srv.nacc) > 0
	t.Sig = fmt.Sprintf("%s|%s|hold=%d|dl=%v|d11=%v|s1=%v|%s|n=%d", cfg.Kind, cfg.Network, cfg.Hold, cfg.DeadlineMs > 0, cfg.D11 && t.Plan.Parked(), cfg.S1, out, vcMinInt(len(clis)/6, 3))
}

// vcRunC13Emfile: accepting fails with EMFILE for a stretch and must resume afterwards.
func vcRunC13Emfile(t *vcTrial, cfg vc13Cfg) {
	r := t.R
	var served int32
	so := vcSrvOpts{Network: "tcp", NCloseCb: 1}
	so.OnRequest = func(ctx context.Context, rec *vcConnRec) error {
		c := rec.Conn
		n := c.Reader().Len()
		p, err := c.Reader().Next(n)
		if err == nil && n > 0 {
			c.Writer().WriteByte(p[0])
			c.Writer().Flush()
			atomic.AddInt32(&served, 1)
		}
		c.Reader().Release()
		return nil
	}
	srv, err := vcStartServer(so)
	if err != nil {
		t.Inconclusive("server start: %v", err)
		return
	}
	defer srv.Stop(3 * time.Second)
	var lim syscall.Rlimit
	if err := syscall.Getrlimit(syscall.RLIMIT_NOFILE, &lim); err != nil {
		t.Inconclusive("getrlimit: %v", err)
		return
	}
	orig := lim
	restore := func() { syscall.Setrlimit(syscall.RLIMIT_NOFILE, &orig) }
	defer restore()
	// raw client sockets: created while descriptors are still available, connected later
	// (connect(2) needs no new descriptor), so that the *server's* accept is what hits EMFILE
	tcpAddr := srv.Ln.Addr().(*net.TCPAddr)
	sa := &syscall.SockaddrInet4{Port: tcpAddr.Port}
	copy(sa.Addr[:], net.IPv4(127, 0, 0, 1).To4())
	echoFD := func(fd int, d time.Duration) error {
		if _, err := syscall.Write(fd, []byte("E")); err != nil {
			return fmt.Errorf("write: %v", err)
		}
		fds := []pollFd{{fd: int32(fd), events: 1}}
		deadline := time.Now().Add(d)
		for time.Now().Before(deadline) {
			if n, _ := sysPoll(fds, 50); n > 0 {
				b := make([]byte, 1)
				m, err := syscall.Read(fd, b)
				if m == 1 {
					return nil
				}
				return fmt.Errorf("read: n=%d err=%v", m, err)
			}
		}
		return fmt.Errorf("no answer within %v", d)
	}
	mark := vcTraceMark()
	episodes := 2
	emfiles := 0
	for ep := 0; ep < episodes && !t.Violated() && t.inconclusive == ""; ep++ {
		var socks []int
		for i := 0; i < cfg.Clients; i++ {
			fd, err := syscall.Socket(syscall.AF_INET, syscall.SOCK_STREAM, 0)
			if err != nil {
				break
			}
			socks = append(socks, fd)
		}
		// no descriptor above the ones that exist now
		probe, _ := syscall.Dup(0)
		syscall.Close(probe)
		low := syscall.Rlimit{Cur: uint64(probe), Max: orig.Max}
		if err := syscall.Setrlimit(syscall.RLIMIT_NOFILE, &low); err != nil {
			t.Inconclusive("setrlimit: %v", err)
			return
		}
		nconn := 0
		for _, fd := range socks {
			if err := syscall.Connect(fd, sa); err == nil {
				nconn++
			}
		}
		sawEmfile := vcWaitPoint(mark, vpEmfileDetach, 0, 500*time.Millisecond)
		// the exhaustion lasts for a stretch: the retry loop fails a few times
		time.Sleep(time.Duration(r.rng(5, 80)) * time.Millisecond)
		restore()
		if sawEmfile {
			emfiles++
		}
		// every pending client must now be accepted and served: bounded progress with a witness
		for i, fd := range socks {
			if err := echoFD(fd, 8*time.Second); err != nil {
				if vcRunnerProgress(5, 5*time.Second) {
					t.Violate("C13", "accept_not_resumed", "episode %d: descriptors are available again (EMFILE seen: %v) but client %d of %d, connected during the exhaustion, was not served within 8s: %v", ep, sawEmfile, i, len(socks), err)
				} else {
					t.Inconclusive("echo failed, canary without progress")
				}
				break
			}
		}
		for _, fd := range socks {
			syscall.Close(fd)
		}
		mark = vcTraceMark()
		time.Sleep(5 * time.Millisecond)
	}
	// a brand-new client after the episodes
	if !t.Violated() && t.inconclusive == "" {
		if fd, err := syscall.Socket(syscall.AF_INET, syscall.SOCK_STREAM, 0); err == nil {
			if err := syscall.Connect(fd, sa); err == nil {
				if err := echoFD(fd, 8*time.Second); err != nil && vcRunnerProgress(5, 5*time.Second) {
					t.Violate("C13", "accept_not_resumed", "a new client after %d exhaustion episode(s) was not served within 8s: %v", episodes, err)
				}
			}
			syscall.Close(fd)
		}
	}
	t.Stat("emfile_episodes_seen", emfiles)
	t.Stat("served", int(atomic.LoadInt32(&served)))
	t.Nontrivial = emfiles > 0
	t.Sig = fmt.Sprintf("emfile|eps=%d|clients=%d", emfiles, vcMinInt(cfg.Clients/3, 3))
}

// vcRunC13EmfileShutdown: "Shutdown stops accepting" while the EMFILE back-off is in flight. The
// exhaustion is produced at netpoll's accept wrapper (verifFault) so that its end is under the
// harness's control. After Shutdown returned, a new listener of the *harness* receives the freed
// descriptor number; a server that still accepts on that number steals the harness's client and
// runs its callbacks although it was shut down.
func vcRunC13EmfileShutdown(t *vcTrial) {
	r := t.R
	t.P("variant", "emfile-backoff-then-shutdown")
	srv, err := vcStartServer(vcSrvOpts{Network: "tcp", NCloseCb: 1, OnRequest: func(ctx context.Context, rec *vcConnRec) error {
		rec.Conn.Reader().Skip(rec.Conn.Reader().Len())
		return nil
	}})
	if err != nil {
		t.Inconclusive("server start: %v", err)
		return
	}
	lnFD := srv.Ln.Fd()
	mark := vcTraceMark()
	fp := &vcFaultPlan{Rules: []*vcFaultRule{{Site: vfltAccept, Errno: syscall.EMFILE, FD: lnFD}}}
	vcSetFaults(fp)
	defer vcSetFaults(nil)
	c1, err := net.DialTimeout("tcp", srv.Addr, 2*time.Second)
	if err != nil {
		srv.Stop(2 * time.Second)
		t.Inconclusive("dial: %v", err)
		return
	}
	defer c1.Close()
	if !vcWaitPoint(mark, vpEmfileDetach, 0, 2*time.Second) {
		srv.Stop(2 * time.Second)
		t.Inconclusive("the accept path did not see the injected EMFILE")
		return
	}
	// let the retry loop fail a few times (back-off 0,10,50,100,... ms)
	time.Sleep(time.Duration(r.rng(1, 200)) * time.Millisecond)
	before := atomic.LoadInt32(&srv.nacc)
	serr := srv.Stop(3 * time.Second)
	t.P("shutdown_result", fmt.Sprint(serr))
	if open, _, _ := vcFstat(lnFD); open {
		t.Inconclusive("descriptor %d still open after Shutdown (%v)", lnFD, serr)
		return
	}
	// the harness's own listener on the freed number
	bfd, err := syscall.Socket(syscall.AF_INET, syscall.SOCK_STREAM|syscall.SOCK_NONBLOCK, 0)
	if err != nil {
		t.Inconclusive("socket: %v", err)
		return
	}
	if bfd != lnFD {
		if err := syscall.Dup3(bfd, lnFD, 0); err != nil {
			syscall.Close(bfd)
			t.Inconclusive("dup3: %v", err)
			return
		}
		syscall.Close(bfd)
		bfd = lnFD
	}
	defer syscall.Close(bfd)
	sa := &syscall.SockaddrInet4{}
	copy(sa.Addr[:], net.IPv4(127, 0, 0, 1).To4())
	if err := syscall.Bind(bfd, sa); err != nil {
		t.Inconclusive("bind: %v", err)
		return
	}
	if err := syscall.Listen(bfd, 16); err != nil {
		t.Inconclusive("listen: %v", err)
		return
	}
	lsa, _ := syscall.Getsockname(bfd)
	baddr := fmt.Sprintf("127.0.0.1:%d", lsa.(*syscall.SockaddrInet4).Port)
	vcSetFaults(nil) // descriptors are "available again"
	c2, err := net.DialTimeout("tcp", baddr, 2*time.Second)
	if err != nil {
		t.Inconclusive("dial B: %v", err)
		return
	}
	defer c2.Close()
	// the longest back-off step is 1 s: give a still running retry loop two of them
	stolen := false
	for dl := time.Now().Add(2500 * time.Millisecond); time.Now().Before(dl); {
		if atomic.LoadInt32(&srv.nacc) > before {
			stolen = true
			break
		}
		time.Sleep(2 * time.Millisecond)
	}
	if stolen {
		t.Violate("C13", "accepts_after_shutdown", "Shutdown returned (%v) while the EMFILE retry loop was backing off; the listener's descriptor number %d was re-issued to another listening socket of the process, and the shut-down server accepted that listener's client and ran its OnPrepare callback: the retry goroutine outlives Shutdown and keeps calling accept on the stale number", serr, lnFD)
		return
	}
	// the client is still the harness's
	nfd, _, aerr := syscall.Accept(bfd)
	if aerr != nil {
		t.Violate("C13", "accepts_after_shutdown", "the client connected to the harness's listener (descriptor %d, formerly the server's) is gone from its backlog (%v) after the server's Shutdown", lnFD, aerr)
		return
	}
	syscall.Close(nfd)
	t.Stat("emfile_shutdown_trials", 1)
	t.Stat("accept_faults_injected", int(fp.Fired()))
	t.Nontrivial = fp.Fired() > 1
	t.Sig = "emfile-shutdown"
}

// vcRunC13EmfileLong: "accepting resumes once descriptors are available again" after a *long*
// stretch - longer than the whole back-off schedule of the retry loop (0,10,50,100,200,500,1000 ms).
// The stretch is produced at the accept wrapper and ends on a logical condition: the loop has
// retried more often than the schedule has steps.
func vcRunC13EmfileLong(t *vcTrial) {
	t.P("variant", "emfile-longer-than-the-backoff-schedule")
	var served int32
	srv, err := vcStartServer(vcSrvOpts{Network: "tcp", NCloseCb: 1, OnRequest: func(ctx context.Context, rec *vcConnRec) error {
		c := rec.Conn
		n := c.Reader().Len()
		if p, err := c.Reader().Next(n); err == nil && n > 0 {
			c.Writer().WriteByte(p[0])
			c.Writer().Flush()
			atomic.AddInt32(&served, 1)
		}
		c.Reader().Release()
		return nil
	}})
	if err != nil {
		t.Inconclusive("server start: %v", err)
		return
	}
	defer srv.Stop(3 * time.Second)
	mark := vcTraceMark()
	fp := &vcFaultPlan{Rules: []*vcFaultRule{{Site: vfltAccept, Errno: syscall.EMFILE, FD: srv.Ln.Fd()}}}
	vcSetFaults(fp)
	defer vcSetFaults(nil)
	c1, err := net.DialTimeout("tcp", srv.Addr, 2*time.Second)
	if err != nil {
		t.Inconclusive("dial: %v", err)
		return
	}
	defer c1.Close()
	retries := func() (n int) {
		for _, e := range vcTraceSince(mark) {
			if int(e.Point) == vpEmfileRetry {
				n++
			}
		}
		return
	}
	for dl := time.Now().Add(4 * time.Second); retries() < 8 && time.Now().Before(dl); {
		time.Sleep(5 * time.Millisecond)
	}
	nret := retries()
	vcSetFaults(nil) // descriptors are available again
	echo := func(c net.Conn) error {
		c.SetDeadline(time.Now().Add(8 * time.Second))
		if _, err := c.Write([]byte("E")); err != nil {
			return err
		}
		_, err := io.ReadFull(c, make([]byte, 1))
		return err
	}
	if err := echo(c1); err != nil {
		if vcRunnerProgress(5, 5*time.Second) {
			t.Violate("C13", "accept_not_resumed", "accept failed with EMFILE %d times in a row (%d retries of the back-off loop); descriptors are available again but the client that connected during the exhaustion was not served within 8s: %v", fp.Fired(), nret, err)
		} else {
			t.Inconclusive("echo failed, canary without progress")
		}
		return
	}
	c2, err := net.DialTimeout("tcp", srv.Addr, 2*time.Second)
	if err == nil {
		defer c2.Close()
		if err := echo(c2); err != nil && vcRunnerProgress(5, 5*time.Second) {
			t.Violate("C13", "accept_not_resumed", "a new client after a long EMFILE stretch (%d failed accepts) was not served within 8s: %v", fp.Fired(), err)
			return
		}
	}
	t.Stat("emfile_long_trials", 1)
	t.Stat("accept_faults_injected", int(fp.Fired()))
	t.Stat("emfile_retries_seen", nret)
	t.Nontrivial = nret >= 8
	t.Sig = fmt.Sprintf("emfile-long|retries>=8:%v", nret >= 8)
}

// vcRunC13IdleThenBusy places D28 exactly: Shutdown's close pass has just judged a connection
// idle (hook ServerCloseIdle) when a request arrives and its handler starts; then the pass's
// Close() lands. "Leaves busy ones running": the handler's connection must still be active.
func vcRunC13IdleThenBusy(t *vcTrial) {
	t.P("variant", "idle-at-the-check-busy-at-the-close")
	release := make(chan struct{})
	var inHandler int32
	var connID uintptr
	so := vcSrvOpts{Network: "unix", NCloseCb: 1}
	so.OnPrepare = func(rec *vcConnRec) { connID = rec.ID }
	so.OnRequest = func(ctx context.Context, rec *vcConnRec) error {
		rec.Conn.Reader().Skip(rec.Conn.Reader().Len())
		atomic.StoreInt32(&inHandler, 1)
		<-release
		atomic.StoreInt32(&inHandler, 2)
		return nil
	}
	srv, err := vcStartServer(so)
	if err != nil {
		t.Inconclusive("server start: %v", err)
		return
	}
	cli, err := vcDialRaw(srv)
	if err != nil {
		srv.Stop(time.Second)
		t.Inconclusive("dial: %v", err)
		return
	}
	defer cli.Close()
	rec := srv.nextAccepted(3 * time.Second)
	if rec == nil {
		srv.Stop(time.Second)
		t.Inconclusive("accept not seen")
		return
	}
	mark := vcTraceMark()
	var placed int32
	vcPointCallback.Store(func(id int, obj uintptr, arg int) {
		if id == vpServerCloseIdle && obj == connID && atomic.CompareAndSwapInt32(&placed, 0, 1) {
			cli.Write([]byte("a-request-right-after-the-idle-check"))
			for dl := time.Now().Add(2 * time.Second); atomic.LoadInt32(&inHandler) == 0 && time.Now().Before(dl); {
				time.Sleep(20 * time.Microsecond)
			}
		}
	})
	defer vcPointCallback.Store(func(id int, obj uintptr, arg int) {})
	ctx, cancel := context.WithTimeout(context.Background(), 150*time.Millisecond)
	shErr := srv.Evl.Shutdown(ctx)
	cancel()
	busy := atomic.LoadInt32(&inHandler) == 1
	active := rec.Conn.IsActive()
	close(release)
	if atomic.LoadInt32(&placed) == 0 || !busy {
		t.Inconclusive("the request did not land between the idle check and the Close (placed=%d handler=%d)", atomic.LoadInt32(&placed), atomic.LoadInt32(&inHandler))
		return
	}
	if !active {
		var tIdle, tTask int64
		for _, e := range vcTraceSince(mark) {
			if e.Obj != rec.ID {
				continue
			}
			switch int(e.Point) {
			case vpServerCloseIdle:
				if tIdle == 0 {
					tIdle = e.T
				}
			case vpTaskStart:
				tTask = e.T
			}
		}
		t.Violate("C13", "busy_closed", "a connection whose handler was still running was closed by Shutdown (fd=%d, Shutdown returned %v): the close pass found it idle, a request arrived and its handler started %dus later, then the close pass's Close() landed", rec.FD, shErr, (tTask-tIdle)/1000)
	}
	rec.waitClosed(2 * time.Second)
	srv.Stop(2 * time.Second)
	t.Nontrivial, t.Sig = true, "idle-then-busy"
}

// vcRunC13PendingOutput: "leaves busy ones running" - a connection is busy while output is pending
// (written from outside any handler, the client reads slowly). Shutdown with a deadline may not
// close it: it returns the context's error, the connection stays active, and once the client
// drains it receives every byte.
func vcRunC13PendingOutput(t *vcTrial) {
	r := t.R
	t.P("variant", "pending output at Shutdown")
	srv, err := vcStartServer(vcSrvOpts{Network: "tcp", NCloseCb: 1, OnRequest: func(ctx context.Context, rec *vcConnRec) error {
		rec.Conn.Reader().Skip(rec.Conn.Reader().Len())
		return nil
	}})
	if err != nil {
		t.Inconclusive("server start: %v", err)
		return
	}
	cli, err := vcDialRaw(srv)
	if err != nil {
		srv.Stop(time.Second)
		t.Inconclusive("dial: %v", err)
		return
	}
	defer cli.Close()
	rec := srv.nextAccepted(3 * time.Second)
	if rec == nil {
		srv.Stop(time.Second)
		t.Inconclusive("accept not seen")
		return
	}
	vcSetBuf(rec.FD, 8192, 0)
	total := r.rng(2<<20, 6<<20)
	seed := r.next()
	payload := make([]byte, total)
	vfFill(payload, seed, 0)
	wdone := make(chan error, 1)
	go func() {
		_, err := rec.Conn.Write(payload) // blocks in Flush: the client is not reading yet
		wdone <- err
	}()
	// wait until the writer is parked with output pending
	if !vcWaitFlushParked(t.Mark, rec.ID, 3*time.Second) {
		t.Inconclusive("the writer did not park")
		srv.Stop(time.Second)
		return
	}
	pending := vcInner(rec.Conn).outputBuffer.Len()
	ctx, cancel := context.WithTimeout(context.Background(), time.Duration(r.rng(60, 200))*time.Millisecond)
	shErr := srv.Evl.Shutdown(ctx)
	cancel()
	active := rec.Conn.IsActive()
	if shErr == nil {
		t.Violate("C13", "nil_with_tracked", "Shutdown returned nil while a connection had %d bytes of output pending (its writer parked in Flush, the client not reading): it was treated as idle", pending)
	} else if !active {
		t.Violate("C13", "busy_closed", "a connection with %d bytes of output pending was closed by Shutdown (Shutdown returned %v)", pending, shErr)
	}
	// the client drains now: a connection that was left running delivers everything
	got := 0
	buf := make([]byte, 256<<10)
	cli.SetReadDeadline(time.Now().Add(20 * time.Second))
	for got < total {
		n, err := cli.Read(buf)
		if n > 0 {
			if i := vfCheck(buf[:n], seed, uint64(got)); i >= 0 && !t.Violated() {
				t.Violate("C13", "stream_corrupted", "byte %d of the response differs", got+i)
			}
			got += n
		}
		if err != nil {
			break
		}
	}
	if got != total && !t.Violated() {
		t.Violate("C13", "busy_closed", "a response of %d bytes was being written when Shutdown ran into its deadline; the client, draining afterwards, received %d: the connection was not left running", total, got)
	}
	select {
	case <-wdone:
	case <-time.After(5 * time.Second):
	}
	rec.Conn.Close()
	srv.Stop(2 * time.Second)
	t.Stat("pending_output_trials", 1)
	t.Nontrivial, t.Sig = pending > 0, "pending-output"
}

// vcRunC13NoHandlers: a server with OnPrepare only (blocking-style use: no OnRequest, no OnConnect).
// For such connections a peer's hang-up leaves the teardown to a user-side Close - which Shutdown's
// close pass must issue: the connections are idle. Shutdown returns nil within its deadline, the
// descriptors are closed, nothing stays tracked.
func vcRunC13NoHandlers(t *vcTrial) {
	r := t.R
	t.P("variant", "server without OnRequest/OnConnect, peers already gone")
	audit := vcStartAudit()
	_ = audit
	srv, err := vcStartServer(vcSrvOpts{Network: []string{"tcp", "unix"}[r.intn(2)], NCloseCb: 1, NoOnRequest: true, NoDefaultTimeouts: true})
	if err != nil {
		t.Inconclusive("server start: %v", err)
		return
	}
	n := r.rng(1, 6)
	var recs []*vcConnRec
	var keep []net.Conn
	for i := 0; i < n; i++ {
		c, err := vcDialRaw(srv)
		if err != nil {
			continue
		}
		rec := srv.nextAccepted(2 * time.Second)
		if rec == nil {
			c.Close()
			continue
		}
		recs = append(recs, rec)
		// the accept path has stored the connection (a hang-up that overtakes it is D30's subject and
		// has its own directed trial)
		vcWaitPoint(t.Mark, vpAcceptAfterStore, rec.ID, time.Second)
		if r.chance(70) {
			c.Close() // the peer hangs up (no unread data left behind)
		} else {
			keep = append(keep, c) // an idle, open connection
		}
	}
	// the hang-ups are processed
	for _, rec := range recs {
		for dl := time.Now().Add(time.Second); rec.Conn.IsActive() && time.Now().Before(dl); {
			time.Sleep(100 * time.Microsecond)
		}
	}
	ctx, cancel := context.WithTimeout(context.Background(), 3*time.Second)
	t0 := time.Now()
	shErr := srv.Evl.Shutdown(ctx)
	cancel()
	for _, c := range keep {
		c.Close()
	}
	if shErr != nil {
		s := vc13ServerOf(srv.Evl)
		_ = s
		t.Violate("C13", "idle_not_closed", "Shutdown of a server without OnRequest/OnConnect returned %v after %v although every one of its %d connections was idle (peer already gone: %d): idle connections are closed by the close pass", shErr, time.Since(t0).Round(time.Millisecond), len(recs), len(recs)-len(keep))
		return
	}
	for _, rec := range recs {
		if !rec.waitClosed(2 * time.Second) {
			why := ""
			if vc13HupDuringAccept(vcTraceSince(t.Mark), rec.ID) {
				// handler-less variant of D30: the untracked connection waits for a user Close that
				// Shutdown's close pass was supposed to issue
				why = " [" + vc13ClosedWhileAccepted + "]"
			}
			t.Violate("C13", "nil_with_open_connection", "Shutdown returned nil but accepted connection fd=%d of a handler-less server has not run its close callbacks (active=%v)%s", rec.FD, rec.Conn.IsActive(), why)
			return
		}
	}
	t.Stat("no_handler_server_trials", 1)
	t.Nontrivial, t.Sig = len(recs) > 0, "no-handlers"
}

// vcRunC13ClosedDuringAccept (D30): the peer sends a request and hangs up while the accept path
// sits between registering the connection with its poller and looking at IsActive(): the handler is
// running on the connection's poller, the connection is already closed (by the poller), and the
// accept path returns without tracking it. Shutdown then returns nil with a handler running and the
// descriptor open. Placed with a hook callback on the accept path's goroutine; needs two pollers.
func vcRunC13ClosedDuringAccept(t *vcTrial, atPoint int) {
	t.P("variant", "closed by the peer while being accepted, handler running")
	t.P("placed_at", vcPointName(atPoint))
	release := make(chan struct{})
	var relOnce sync.Once
	doRelease := func() { relOnce.Do(func() { close(release) }) }
	defer doRelease()
	var held int32
	recCh := make(chan *vcConnRec, 8)
	so := vcSrvOpts{Network: "tcp", NCloseCb: 1}
	so.OnPrepare = func(rec *vcConnRec) { recCh <- rec }
	so.OnRequest = func(ctx context.Context, rec *vcConnRec) error {
		rec.Conn.Reader().Skip(rec.Conn.Reader().Len())
		rec.Conn.Reader().Release()
		atomic.AddInt32(&held, 1)
		<-release
		return nil
	}
	srv, err := vcStartServer(so)
	if err != nil {
		t.Inconclusive("server start: %v", err)
		return
	}
	stopped := false
	defer func() {
		doRelease()
		if !stopped {
			srv.Stop(3 * time.Second)
		}
	}()
	svr := vc13ServerOf(srv.Evl)
	if svr == nil {
		t.Inconclusive("Serve did not start")
		return
	}
	mark := vcTraceMark()
	var cliMu sync.Mutex
	var cli net.Conn
	var placed int32
	vcPointCallback.Store(func(id int, obj uintptr, arg int) {
		if id != atPoint || !atomic.CompareAndSwapInt32(&placed, 0, 1) {
			return
		}
		// on the accept path's goroutine, right before its IsActive() check
		cliMu.Lock()
		c := cli
		cliMu.Unlock()
		if c == nil {
			return
		}
		c.Write([]byte("Hold-this-handler"))
		for dl := time.Now().Add(2 * time.Second); atomic.LoadInt32(&held) == 0 && time.Now().Before(dl); {
			time.Sleep(20 * time.Microsecond)
		}
		if atomic.LoadInt32(&held) == 0 {
			return // same poller as the listener: the input cannot be handled while we stand here
		}
		hm := vcTraceMark()
		c.Close()
		if vcWaitPoint(hm, vpOnHupAfterCloseBy, obj, 2*time.Second) {
			atomic.StoreInt32(&placed, 2)
		}
	})
	defer vcPointCallback.Store(func(id int, obj uintptr, arg int) {})
	cliMu.Lock()
	c, err := vcDialRaw(srv)
	cli = c
	cliMu.Unlock()
	if err != nil {
		t.Inconclusive("dial: %v", err)
		return
	}
	defer c.Close()
	var rec *vcConnRec
	select {
	case rec = <-recCh:
	case <-time.After(3 * time.Second):
		t.Inconclusive("accept not seen")
		return
	}
	// wait until the accept path has passed its store (or returned without it)
	for dl := time.Now().Add(5 * time.Second); atomic.LoadInt32(&placed) == 1 && time.Now().Before(dl); {
		time.Sleep(50 * time.Microsecond)
	}
	time.Sleep(2 * time.Millisecond)
	if atomic.LoadInt32(&placed) != 2 || atomic.LoadInt32(&held) == 0 {
		t.Inconclusive("the hang-up could not be placed inside the accept path (placed=%d held=%d; listener and connection on the same poller?)", atomic.LoadInt32(&placed), atomic.LoadInt32(&held))
		return
	}
	tracked, _ := vc13Tracked(svr, []*vcConnRec{rec})
	ctx, cancel := context.WithTimeout(context.Background(), 300*time.Millisecond)
	shErr := srv.Evl.Shutdown(ctx)
	cancel()
	stopped = true
	running := true
	select {
	case <-rec.done:
		running = false
	default:
	}
	if shErr == nil && running {
		t.Violate("C13", "nil_with_open_connection", "Shutdown returned nil but accepted connection fd=%d has not run its close callbacks and its handler is still running (active=%v, tracked before Shutdown: %v, history %v) [%s]", rec.FD, rec.Conn.IsActive(), tracked, rec.history(), vc13ClosedWhileAccepted)
	}
	doRelease()
	rec.waitClosed(3 * time.Second)
	_ = mark
	t.Nontrivial, t.Sig = true, "closed-during-accept|"+vcPointName(atPoint)
}

const vc13ClosedWhileAccepted = "the peer's hang-up closed the connection while its accept was still in progress: the accept path does not track a connection that is already closed, although it is not torn down yet (its handler is still running, or - without handlers - it waits for the Close that Shutdown's close pass would issue)"

// vc13HupDuringAccept: the trace shows that the peer's hang-up closed connection id before the
// accept path had stored it (or it was never stored), and its close callbacks have not started:
// the only code that leaves such a connection out of the server's table is the accept path itself.
func vc13HupDuringAccept(evs []vcEvent, id uintptr) bool {
	var tHup, tStore int64
	cbStarted := false
	for _, e := range evs {
		if e.Obj != id {
			continue
		}
		switch int(e.Point) {
		case vpOnHupAfterCloseBy:
			if tHup == 0 {
				tHup = e.T
			}
		case vpAcceptAfterRecheck:
			tStore = e.T
		case vpCloseCbBeforeRun:
			cbStarted = true
		}
	}
	// "before the accept path was through with it": the hook after its post-Store re-check (a hook
	// event is recorded before any injected delay inside the hook, so the earlier AcceptAfterStore
	// event can precede a hang-up that the re-check still sees)
	return tHup != 0 && !cbStarted && (tStore == 0 || tHup < tStore)
}
