// C07: a blocked reader wakes on data, close or timeout - and only then.
package netpoll

import (
	"runtime"
	"context"
	"errors"
	"fmt"
	"io"
	"net"
	"sync"
	"sync/atomic"
	"syscall"
	"time"
)

func init() {
	vcScenarios["C07"] = vcScenC07
	vcScenarios["C07X"] = func(t *vcTrial) {
		if msg, st := vcRunCloseRace(t, 400); msg != "" {
			t.Violate("C07", "panic", "%s", msg)
			t.P("panic_stack", st)
		}
		t.Nontrivial, t.Sig = true, "closerace"
	}
	vcDirected["C07"] = []vcScenario{
		func(t *vcTrial) { vcRunC07TimerTie(t, 400) },
		// D5: timeouts on a NewFDConnection (no remote address)
		func(t *vcTrial) { vcRunC07(t, vc07Cfg{Kind: "fdconn", Reads: 3, Force: "timeout", TimeoutKind: "timeout"}) },
		func(t *vcTrial) { vcRunC07(t, vc07Cfg{Kind: "fdconn", Reads: 2, Force: "timeout", TimeoutKind: "deadline"}) },
		func(t *vcTrial) { vcRunC07(t, vc07Cfg{Kind: "dial", Reads: 4, Force: "timeout", TimeoutKind: "timeout"}) },
		func(t *vcTrial) { vcRunC07(t, vc07Cfg{Kind: "accept-preptimeout", Reads: 2}) },
		func(t *vcTrial) { vcRunC07(t, vc07Cfg{Kind: "dial", Reads: 1, Force: "dataclose", TimeoutKind: "timeout"}) },
		func(t *vcTrial) { vcRunC07(t, vc07Cfg{Kind: "fdconn", Reads: 1, Force: "dataclose", TimeoutKind: "deadline"}) },
		func(t *vcTrial) { vcRunC07(t, vc07Cfg{Kind: "dial", Reads: 1, Force: "dataclose", TimeoutKind: "none"}) },
		func(t *vcTrial) { vcRunC07(t, vc07Cfg{Kind: "accept-hupwait", Reads: 2, Force: "peerclose", TimeoutKind: "none"}) },
		func(t *vcTrial) { vcRunC07(t, vc07Cfg{Kind: "accept-hupwait", Reads: 3, Force: "peerclose", TimeoutKind: "timeout"}) },
		func(t *vcTrial) {
			vcRunC07(t, vc07Cfg{Kind: "accept", Reads: 3, Force: "data", TimeoutKind: "timeout", Mode: vcModePause, P: vpWaitReadTOBeforeSelect, Q: vpInputAckBeforeTrigger})
		},
		func(t *vcTrial) {
			vcRunC07(t, vc07Cfg{Kind: "dial", Reads: 3, Force: "data", TimeoutKind: "none", Mode: vcModePause, P: vpWaitReadPublished, Q: vpInputAckAfterBook})
		},
	}
}

type vc07Cfg struct {
	Kind        string // dial | accept | fdconn
	Reads       int
	Force       string // "", data, timeout, peerclose, localclose
	TimeoutKind string // "", none, timeout, deadline
	Mode        int
	P, Q        int
}

var vc07P = []int{vpWaitReadPublished, vpWaitReadBeforeBlock, vpWaitReadTOBeforeSelect, vpWaitReadTOTimer, vpWaitReadTOTrigger, vpWaitReadTORet, vpWaitReadWoke}
var vc07Q = []int{vpInputAckAfterBook, vpInputAckBeforeTrigger, vpOnHupAfterCloseBy, vpOnHupAfterTrigger, vpOnCloseWon, vpPollBatchEnd}

func vcScenC07(t *vcTrial) {
	r := t.R
	if r.intn(80) == 0 {
		vcRunC07TimerTie(t, r.rng(100, 400))
		return
	}
	cfg := vc07Cfg{Kind: []string{"dial", "accept", "fdconn", "dial", "accept-hupwait", "accept-preptimeout"}[r.intn(6)], Reads: r.rng(1, 6)}
	if cfg.Kind == "accept-hupwait" {
		cfg.Force = []string{"peerclose", "", ""}[r.intn(3)]
	}
	switch r.intn(3) {
	case 0:
		cfg.Mode = vcModeJitter
	case 1:
		cfg.Mode = vcModePause
		cfg.P = vc07P[r.intn(len(vc07P))]
		cfg.Q = vc07Q[r.intn(len(vc07Q))]
	}
	vcRunC07(t, cfg)
}

const vc07PrepTimeout = 60 * time.Millisecond

// vc07Peer is the raw sending side.
type vc07Peer struct {
	w     io.Writer
	close func()
	rst   func()
}

// vcMakeReaderConn builds the connection under test and its raw peer.
func vcMakeReaderConn(t *vcTrial, kind string) (Connection, *vc07Peer, func()) {
	switch kind {
	case "fdconn":
		fds, err := syscall.Socketpair(syscall.AF_UNIX, syscall.SOCK_STREAM, 0)
		if err != nil {
			t.Inconclusive("socketpair: %v", err)
			return nil, nil, nil
		}
		c, err := NewFDConnection(fds[0])
		if err != nil {
			t.Inconclusive("NewFDConnection: %v", err)
			return nil, nil, nil
		}
		pfd := fds[1]
		var once sync.Once
		cl := func() { once.Do(func() { syscall.Close(pfd) }) }
		return c, &vc07Peer{w: vcFDWriter(pfd), close: cl, rst: cl}, func() { c.Close(); cl() }
	case "accept", "accept-hupwait", "accept-preptimeout":
		so := vcSrvOpts{Network: "tcp", NCloseCb: 0, NoOnRequest: true}
		if kind == "accept-preptimeout" {
			// the read timeout of this connection is set by the user in OnPrepare (per-connection
			// policy); the reads below use it as it is
			so.NoDefaultTimeouts = true
			so.Extra = append(so.Extra, WithReadTimeout(20*time.Second)) // the loop-wide default, overridden per connection
			so.OnPrepare = func(rec *vcConnRec) { rec.Conn.SetReadTimeout(vc07PrepTimeout) }
		}
		if kind == "accept-hupwait" {
			// OnDisconnect waits until the reader that was blocked at the time of the peer's close has
			// been released: the wake-up of blocked calls must not depend on this callback returning
			so.OnDisconnect = func(ctx context.Context, rec *vcConnRec) {
				select {
				case <-vc07ReaderReleased:
				case <-time.After(20 * time.Second):
				}
			}
		}
		srv, err := vcStartServer(so)
		if err != nil {
			t.Inconclusive("server: %v", err)
			return nil, nil, nil
		}
		raw, err := vcDialRaw(srv)
		if err != nil {
			srv.Stop(time.Second)
			t.Inconclusive("dial: %v", err)
			return nil, nil, nil
		}
		rec := srv.nextAccepted(3 * time.Second)
		if rec == nil {
			raw.Close()
			srv.Stop(time.Second)
			t.Inconclusive("accept not seen")
			return nil, nil, nil
		}
		var once sync.Once
		return rec.Conn, &vc07Peer{w: raw, close: func() { once.Do(func() { raw.Close() }) }, rst: func() { once.Do(func() { vcRST(raw) }) }},
			func() { rec.Conn.Close(); raw.Close(); srv.Stop(2 * time.Second) }
	default:
		ln, err := net.Listen("tcp", "127.0.0.1:0")
		if err != nil {
			t.Inconclusive("listen: %v", err)
			return nil, nil, nil
		}
		acc := make(chan net.Conn, 1)
		go func() {
			c, err := ln.Accept()
			if err == nil {
				acc <- c
			}
		}()
		c, err := DialConnection("tcp", ln.Addr().String(), 5*time.Second)
		if err != nil {
			ln.Close()
			t.Inconclusive("dial: %v", err)
			return nil, nil, nil
		}
		var raw net.Conn
		select {
		case raw = <-acc:
		case <-time.After(5 * time.Second):
			ln.Close()
			c.Close()
			t.Inconclusive("accept timeout")
			return nil, nil, nil
		}
		var once sync.Once
		return c, &vc07Peer{w: raw, close: func() { once.Do(func() { raw.Close() }) }, rst: func() { once.Do(func() { vcRST(raw) }) }},
			func() { c.Close(); raw.Close(); ln.Close() }
	}
}

type vcFDWriter int

func (f vcFDWriter) Write(p []byte) (int, error) {
	n := 0
	for n < len(p) {
		m, err := syscall.Write(int(f), p[n:])
		if err != nil {
			if err == syscall.EAGAIN || err == syscall.EINTR {
				time.Sleep(50 * time.Microsecond)
				continue
			}
			return n, err
		}
		n += m
	}
	return n, nil
}

// vc07ReaderReleased is signalled (never blocks) whenever a read of the current trial returned.
var vc07ReaderReleased = make(chan struct{}, 64)

type vc07Res struct {
	err     error
	p       []byte
	elapsed time.Duration
	retAt   time.Time
	dlAbs   time.Time
	lenAt   int // Len() at call time
	lenEnd  int
	pan     interface{}
	stack   string
}

func vcRunC07(t *vcTrial, cfg vc07Cfg) {
	r := t.R
	t.P("cfg", fmt.Sprintf("%+v", cfg))
	t.P("P", vcPointName(cfg.P))
	t.P("Q", vcPointName(cfg.Q))
	for len(vc07ReaderReleased) > 0 {
		<-vc07ReaderReleased
	}
	conn, peer, cleanup := vcMakeReaderConn(t, cfg.Kind)
	if conn == nil {
		return
	}
	defer cleanup()
	inner := vcInner(conn)
	seed := r.next()
	var sentPos, readPos uint64
	send := func(n int) {
		if n <= 0 {
			return
		}
		p := make([]byte, n)
		vfFill(p, seed, sentPos)
		sentPos += uint64(n)
		peer.w.Write(p)
	}
	var parkAct atomic.Value // func()
	switch cfg.Mode {
	case vcModeJitter:
		t.Plan = &vcPlan{Mode: vcModeJitter, Seed: r.next(), JitterPM: r.rng(50, 400), MaxSleep: time.Duration(r.rng(1, 300)) * time.Microsecond}
	case vcModePause:
		t.Plan = &vcPlan{Mode: vcModePause, P: cfg.P, Q: cfg.Q, ObjP: vcConnID(conn), ArgQ: -1, Timeout: time.Duration(r.rng(1, 8)) * time.Millisecond}
		// the peer's action of the read in progress (deliver the bytes, close, ...) is performed
		// exactly while the reader is parked at P, if the reader gets there
		t.Plan.OnPark = func() {
			if f, _ := parkAct.Load().(func()); f != nil {
				f()
			}
		}
	}
	vcSetPlan(t.Plan)
	defer vcSetPlan(nil)
	mark := vcTraceMark()
	peerClosed, localClosed := false, false
	outcomes := ""
	parkedReads, nearSimul := 0, 0
	for i := 0; i < cfg.Reads && !t.Violated() && !peerClosed && !localClosed; i++ {
		// ---- choose the read
		n := []int{1, 2, 17, 100, 1000, 5000, 20000}[r.intn(7)]
		op := []string{"Next", "Next", "Peek", "Skip", "ReadBinary", "ReadByte", "Slice", "Read", "ReadString"}[r.intn(9)]
		if op == "ReadByte" {
			n = 1
		}
		class := cfg.Force
		if class == "" {
			class = []string{"data", "data", "data", "timeout", "peerclose", "localclose", "buffered", "dataclose"}[r.intn(8)]
		}
		tk := cfg.TimeoutKind
		if tk == "" {
			tk = []string{"none", "timeout", "deadline"}[r.intn(3)]
		}
		if class == "timeout" && tk == "none" {
			tk = "timeout"
		}
		d := time.Duration(r.rng(1, 25)) * time.Millisecond
		if class == "data" && tk != "none" && r.chance(60) {
			d = time.Duration(r.rng(30, 200)) * time.Millisecond // comfortably later than the data
		}
		if cfg.Kind == "accept-preptimeout" && i == 0 {
			// first read: no data, and the timeout that OnPrepare set is what must end it
			tk, class, d = "inherit", "timeout", vc07PrepTimeout
		}
		switch tk {
		case "none":
			conn.SetReadTimeout(0)
			conn.SetReadDeadline(time.Time{})
		case "timeout":
			conn.SetReadTimeout(d)
		}
		buffered := inner.inputBuffer.Len()
		if class == "buffered" {
			send(n - buffered + r.rng(0, 50))
			dl := time.Now().Add(3 * time.Second)
			for inner.inputBuffer.Len() < n && time.Now().Before(dl) {
				time.Sleep(50 * time.Microsecond)
			}
			if inner.inputBuffer.Len() < n {
				t.Inconclusive("pre-buffering did not complete")
				return
			}
			if tk != "none" && r.chance(50) {
				d = time.Microsecond // already expired deadline / minimal timeout: still must succeed
				if tk == "timeout" {
					conn.SetReadTimeout(d)
				}
			}
		}
		if op == "Read" && class != "buffered" && class != "timeout" {
			// connection.Read waits for 1 byte only
			n = vcMaxInt(n, 1)
		}
		need := n
		if op == "Read" {
			need = 1
		}
		// a stale wake-up token: bytes delivered while nobody waits leave a nil in the read trigger
		// (capacity 1); a close that lands just before the reader's receive finds the channel full
		if class != "buffered" && r.chance(50) {
			k := r.rng(1, 8)
			before := inner.inputBuffer.Len()
			send(k)
			for dl := time.Now().Add(time.Second); inner.inputBuffer.Len() < before+k && time.Now().Before(dl); {
				time.Sleep(20 * time.Microsecond)
			}
			if op != "Read" && op != "ReadByte" && need <= inner.inputBuffer.Len() {
				need = inner.inputBuffer.Len() + 1
				n = need
			}
		}
		// ---- start the read
		rmark := vcTraceMark()
		resCh := make(chan vc07Res, 1)
		lenAt := inner.inputBuffer.Len()
		var callStart time.Time
		started := make(chan struct{})
		go func() {
			var res vc07Res
			defer func() {
				if p := recover(); p != nil {
					res.pan, res.stack = p, vfStack()
				}
				res.lenEnd = inner.inputBuffer.Len()
				select {
				case vc07ReaderReleased <- struct{}{}:
				default:
				}
				resCh <- res
			}()
			if tk == "deadline" {
				res.dlAbs = time.Now().Add(d)
				conn.SetReadDeadline(res.dlAbs)
			}
			res.lenAt = inner.inputBuffer.Len()
			callStart = time.Now()
			close(started)
			rd := conn.Reader()
			switch op {
			case "Next":
				res.p, res.err = rd.Next(n)
			case "Peek":
				res.p, res.err = rd.Peek(n)
			case "Skip":
				res.err = rd.Skip(n)
			case "ReadBinary":
				res.p, res.err = rd.ReadBinary(n)
			case "ReadString":
				var s string
				s, res.err = rd.ReadString(n)
				res.p = []byte(s)
			case "ReadByte":
				var b byte
				b, res.err = rd.ReadByte()
				res.p = []byte{b}
			case "Slice":
				var sr Reader
				sr, res.err = rd.Slice(n)
				if res.err == nil {
					res.p, _ = sr.Next(n)
					res.p = append([]byte(nil), res.p...)
					sr.Release()
				}
			case "Read":
				buf := make([]byte, n)
				var m int
				m, res.err = conn.(io.Reader).Read(buf)
				res.p = buf[:m]
			}
			res.retAt = time.Now()
			res.elapsed = res.retAt.Sub(callStart)
		}()
		<-started
		// ---- drive the peer (once: either by the plan's OnPark while the reader is parked at P,
		// or by this goroutine)
		r2 := vfNewRng(r.next())
		var actOnce sync.Once
		doAct := func() {
			actOnce.Do(func() {
				r := r2
				missing := need - lenAt
				switch class {
				case "data", "buffered":
					if missing > 0 {
						// deliver in chunks; the last byte arrives at a random offset, possibly near the deadline
						if tk != "none" && d <= 25*time.Millisecond && r.chance(50) {
							time.Sleep(time.Duration(r.intn(int(d/time.Microsecond)+1)) * time.Microsecond)
							nearSimul++
						} else {
							time.Sleep(time.Duration(r.intn(400)) * time.Microsecond)
						}
						left := missing + r.rng(0, 30)
						for left > 0 {
							k := r.rng(1, left)
							send(k)
							left -= k
							if r.chance(30) {
								time.Sleep(time.Duration(r.intn(200)) * time.Microsecond)
							}
						}
					}
				case "dataclose":
					// exactly the awaited bytes and the close right behind them: the bytes are buffered
					// first, the read succeeds ("if the connection closes *first* it returns ErrEOF")
					if missing > 0 {
						send(missing)
					}
					peer.close()
					peerClosed = true
				case "timeout":
					if missing > 1 && r.chance(70) {
						send(r.rng(1, missing-1)) // some, but not enough
					}
				case "peerclose":
					if missing > 1 && r.chance(50) {
						send(r.rng(1, missing-1))
					}
					time.Sleep(time.Duration(r.intn(500)) * time.Microsecond)
					if r.chance(30) {
						peer.rst()
					} else {
						peer.close()
					}
					peerClosed = true
				case "localclose":
					time.Sleep(time.Duration(r.intn(500)) * time.Microsecond)
					go conn.Close()
					localClosed = true
				}

			})
		}
		parkAct.Store(doAct)
		if cfg.Mode == vcModePause && !t.Plan.Parked() {
			// give the reader a moment to reach P; if it does, OnPark performs the action
			for dl := time.Now().Add(3 * time.Millisecond); !t.Plan.Parked() && time.Now().Before(dl); {
				time.Sleep(20 * time.Microsecond)
			}
		}
		doAct()
		// ---- collect with bounded progress
		var res vc07Res
		waitMax := 6 * time.Second
		if tk != "none" {
			waitMax += d
		}
		select {
		case res = <-resCh:
		case <-time.After(waitMax):
			// stuck-state witness
			have := inner.inputBuffer.Len()
			cond := ""
			switch {
			case have >= need:
				cond = fmt.Sprintf("%d bytes are buffered for a read that needs %d", have, need)
			case !inner.IsActive():
				cond = "the connection is closed"
			case tk != "none":
				cond = fmt.Sprintf("its %v %s expired %v ago", d, tk, time.Since(callStart)-d)
			}
			if cond != "" && vcRunnerProgress(5, 5*time.Second) {
				time.Sleep(100 * time.Millisecond)
				select {
				case res = <-resCh:
				default:
					stacks := vcStacksContaining("waitRead")
					t.Violate("C07", "reader_stuck", "%s(%d) [%s, timeout %s] has not returned %v after the call although %s; runner canary tasks completed meanwhile", op, n, class, tk, time.Since(callStart).Round(time.Millisecond), cond)
					t.P("stuck_stacks", stacks)
					return
				}
			} else {
				t.Inconclusive("%s(%d) [%s] did not return within %v, no stuck-state witness", op, n, class, waitMax)
				return
			}
		}
		// ---- judge
		posBefore := readPos
		desc := fmt.Sprintf("read #%d %s(%d) class=%s timeout=%s/%v lenAtCall=%d", i, op, n, class, tk, d, res.lenAt)
		if res.pan != nil {
			t.Violate("C07", "panic", "%s panicked: %v at %s", desc, res.pan, vfPanicSite(res.stack))
			t.P("panic_stack", res.stack)
			return
		}
		isTO := errors.Is(res.err, ErrReadTimeout)
		switch {
		case res.err == nil:
			if op != "Skip" {
				want := n
				if op == "Read" {
					want = len(res.p)
					if want < 1 || want > n {
						t.Violate("C07", "read_ret", "%s: Read returned %d bytes", desc, len(res.p))
					}
				}
				if len(res.p) != want {
					t.Violate("C07", "read_ret", "%s: returned %d bytes", desc, len(res.p))
				} else if k := vfCheck(res.p, seed, readPos); k >= 0 {
					t.Violate("C07", "stream_discontinuity", "%s: byte %d is not stream position %d (a timeout or error before it consumed or duplicated data?)", desc, k, readPos+uint64(k))
				}
			}
			if op != "Peek" {
				if op == "Read" {
					readPos += uint64(len(res.p))
				} else {
					readPos += uint64(n)
				}
			}
			if int(sentPos-posBefore) < need {
				t.Violate("C07", "success_without_data", "%s succeeded although only %d unread bytes had been sent", desc, sentPos-posBefore)
			}
			outcomes += "s"
		case isTO:
			if tk == "none" {
				t.Violate("C07", "timeout_without_timeout", "%s returned ErrReadTimeout with no timeout or deadline set", desc)
			}
			if res.lenAt >= need {
				t.Violate("C07", "timeout_with_data", "%s returned ErrReadTimeout although %d bytes were already buffered at call time", desc, res.lenAt)
			}
			// lower bounds only: load can delay a timeout, never advance it
			if (tk == "timeout" || tk == "inherit") && res.elapsed < d {
				t.Violate("C07", "early_timeout", "%s returned ErrReadTimeout after %v, before its %v elapsed (stale timer tick?)", desc, res.elapsed, d)
			}
			if tk == "deadline" && res.retAt.Before(res.dlAbs.Add(-time.Millisecond)) {
				t.Violate("C07", "early_timeout", "%s returned ErrReadTimeout %v before its deadline", desc, res.dlAbs.Sub(res.retAt))
			}
			if res.lenEnd < res.lenAt {
				t.Violate("C07", "timeout_consumed", "%s timed out and the buffer shrank from %d to %d bytes", desc, res.lenAt, res.lenEnd)
			}
			outcomes += "t"
		default:
			switch {
			case class == "dataclose" && vc07BytesBeforeClose(vcTraceSince(rmark), vcConnID(conn), need):
				t.Violate("C07", "error_with_bytes_buffered", "%s failed with %v although the %d awaited bytes were buffered (and the reader's wake-up sent) before the peer's close was processed, while the reader was parked: a read returns successfully once its bytes are buffered; the close came second", desc, res.err, need)
			case peerClosed && !localClosed:
				if !errors.Is(res.err, ErrEOF) {
					t.Violate("C07", "error_class", "%s: the peer closed (no local Close) but the error is %v, want ErrEOF", desc, res.err)
				}
			case localClosed:
				if !errors.Is(res.err, ErrConnClosed) {
					t.Violate("C07", "error_class", "%s: locally closed but the error is %v, want ErrConnClosed", desc, res.err)
				}
			default:
				t.Violate("C07", "spurious_error", "%s failed with %v although nothing was closed and no timeout expired", desc, res.err)
			}
			outcomes += "e"
		}
		if op == "Until" {
			_ = op
		}
		if r.chance(40) {
			conn.Reader().Release()
		}
	}
	// ---- after the close has been seen by a read: a further timed read that needs more than is
	// buffered must fail at once (the timer of earlier timed reads exists by now)
	if (peerClosed || localClosed) && !t.Violated() && t.inconclusive == "" {
		conn.SetReadTimeout(time.Duration(r.rng(5, 300)) * time.Millisecond)
		type pr struct {
			err error
			pan interface{}
		}
		ch := make(chan pr, 1)
		// more than can ever become readable: everything the peer sent minus what was consumed
		need := int(sentPos-readPos) + 1 + r.intn(100)
		go func() {
			var x pr
			defer func() {
				if p := recover(); p != nil {
					x.pan = p
				}
				ch <- x
			}()
			_, x.err = conn.Reader().Next(need)
		}()
		select {
		case x := <-ch:
			if x.pan != nil {
				t.Violate("C07", "panic", "a timed read after the connection was closed panicked: %v", x.pan)
			} else if x.err == nil {
				t.Violate("C07", "success_without_data", "a read of %d bytes succeeded on a closed connection with fewer bytes buffered", need)
			} else if !errors.Is(x.err, ErrConnClosed) && !errors.Is(x.err, ErrReadTimeout) {
				t.Violate("C07", "error_class", "a timed read after close returned %v", x.err)
			}
			outcomes += "c"
		case <-time.After(6 * time.Second):
			if vcRunnerProgress(5, 5*time.Second) {
				select {
				case <-ch:
				default:
					t.Violate("C07", "reader_stuck", "a timed read (Next(%d), read timeout set) issued after the connection was closed (peer=%v local=%v) has not returned after 6s; earlier timed reads on this connection: %q; runner canary tasks completed meanwhile", need, peerClosed, localClosed, outcomes)
					t.P("stuck_stacks", vcStacksContaining("waitRead"))
					return
				}
			} else {
				t.Inconclusive("post-close read did not return, canary without progress")
				return
			}
		}
	}
	// did the reads actually park?
	for _, e := range vcTraceSince(mark) {
		if e.Obj == vcConnID(conn) && (int(e.Point) == vpWaitReadBeforeBlock || int(e.Point) == vpWaitReadTOBeforeSelect) {
			parkedReads++
		}
	}
	t.Stat("reads", len(outcomes))
	t.Stat("reads_parked", parkedReads)
	t.Stat("near_simultaneous_data_and_timer", nearSimul)
	for _, ch := range outcomes {
		t.Stat("outcome_"+string(ch), 1)
	}
	if t.Plan != nil && t.Plan.Mode == vcModePause {
		t.Stat("pause_pairs_attempted", 1)
		if t.Plan.Realised() {
			t.Stat("pause_pairs_realised", 1)
		}
	}
	t.Nontrivial = parkedReads > 0
	t.Sig = fmt.Sprintf("%s|%s|real=%v", cfg.Kind, outcomes, t.Plan.Realised())
	var _ = atomic.LoadInt32
}

// vcRunC07TimerTie: the n-th byte of a timed read arrives at about the moment its timer expires
// (the writer's lead is steered by feedback so that the read succeeds about as often as it times
// out). A timeout "leaves later reads and their timers unaffected" - and so does a read that won the
// race: the follow-up read has a long timeout and its byte comes a millisecond later; it may not
// report ErrReadTimeout before its own timeout.
func vcRunC07TimerTie(t *vcTrial, rounds int) {
	t.P("variant", "read-timer tie, then a long-timeout read")
	r := t.R
	fds, err := syscall.Socketpair(syscall.AF_UNIX, syscall.SOCK_STREAM, 0)
	if err != nil {
		t.Inconclusive("socketpair: %v", err)
		return
	}
	c, err := NewFDConnection(fds[0])
	if err != nil {
		syscall.Close(fds[0])
		syscall.Close(fds[1])
		t.Inconclusive("NewFDConnection: %v", err)
		return
	}
	defer syscall.Close(fds[1])
	defer c.Close()
	T := time.Duration(r.rng(1, 4)) * time.Millisecond
	lead := T - 100*time.Microsecond
	ok, to, follow := 0, 0, 0
	send := func(after time.Duration) chan struct{} {
		done := make(chan struct{})
		go func() {
			defer close(done)
			t0 := time.Now()
			for time.Since(t0) < after { // spin: timer resolution matters here
				runtime.Gosched()
			}
			syscall.Write(fds[1], []byte{7})
		}()
		return done
	}
	for i := 0; i < rounds && !t.Violated(); i++ {
		c.SetReadTimeout(T)
		sent := send(lead + time.Duration(r.intn(60))*time.Microsecond)
		_, err := c.Reader().Next(1)
		<-sent
		switch {
		case err == nil:
			ok++
			lead += 5 * time.Microsecond
			c.Reader().Release()
		case errors.Is(err, ErrReadTimeout):
			to++
			lead -= 10 * time.Microsecond
			if lead < 0 {
				lead = 0
			}
			// the byte arrives a little later: take it (untimed), so that the next round starts empty
			c.SetReadTimeout(0)
			if _, err := c.Reader().Next(1); err != nil {
				t.Inconclusive("late byte: %v", err)
				return
			}
			c.Reader().Release()
			continue
		default:
			t.Violate("C07", "read_error", "round %d: Next(1) with a %v read timeout returned %v", i, T, err)
			return
		}
		// the follow-up read
		long := 2 * time.Second
		c.SetReadTimeout(long)
		sent = send(time.Millisecond)
		t0 := time.Now()
		_, err = c.Reader().Next(1)
		el := time.Since(t0)
		<-sent
		follow++
		if errors.Is(err, ErrReadTimeout) && el < long {
			t.Violate("C07", "early_timeout", "round %d: Next(1) with a %v read timeout returned ErrReadTimeout after %v; the previous timed read on this connection (timeout %v) had been satisfied at about the moment its timer expired (stale timer tick?)", i, long, el, T)
			return
		}
		if err != nil {
			t.Violate("C07", "read_error", "round %d: follow-up Next(1) returned %v", i, err)
			return
		}
		c.Reader().Release()
	}
	t.Stat("read_timer_tie_rounds", ok+to)
	t.Stat("read_timer_tie_satisfied", ok)
	t.Stat("read_timer_tie_timed_out", to)
	t.Nontrivial = ok > 5 && to > 5
	t.Sig = fmt.Sprintf("read-timer-tie|balanced=%v", t.Nontrivial)
}

// vc07BytesBeforeClose decides from the trace of one read whether the awaited bytes were buffered -
// and the reader's wake-up token sent - before the peer's close was processed, while the reader
// was parked in its wait (its last hook event before the data is a park event). Only then is a
// failed read a violation; a reader that was between its length check and its close check when
// both arrived may legitimately report the close.
func vc07BytesBeforeClose(evs []vcEvent, id uintptr, need int) bool {
	lastReader, iData, iHup := -1, -1, -1
	for i, e := range evs {
		if e.Obj != id {
			continue
		}
		switch int(e.Point) {
		case vpWaitReadPublished, vpWaitReadTOBeforeSelect, vpWaitReadTOTimer, vpWaitReadTOTrigger, vpWaitReadTORet, vpWaitReadBeforeBlock, vpWaitReadWoke:
			if iData < 0 {
				lastReader = int(e.Point)
			}
		case vpInputAckBeforeTrigger:
			if iData < 0 && int(e.Arg) >= need {
				iData = i
			}
		case vpOnHupAfterCloseBy, vpOnCloseWon:
			if iHup < 0 {
				iHup = i
			}
		}
	}
	parked := lastReader == vpWaitReadTOBeforeSelect || lastReader == vpWaitReadBeforeBlock
	return parked && iData >= 0 && iHup > iData
}
