// Hook handler of the connmon/pollmon/fdaudit engines: event trace + perturbation engine.
// It is installed into netpoll's `verif` hook points (verif_hooks_on.go) by the test
// binary; netpoll itself contains no logic.
package netpoll

import (
	"runtime"
	"sync"
	"sync/atomic"
	"syscall"
	"time"
	"unsafe"
)

// ------------------------------------------------------------------ trace

type vcEvent struct {
	Seq   uint64
	T     int64
	Point int32
	Arg   int32
	Obj   uintptr
}

const vcRingSize = 1 << 17

var (
	vcRing    [vcRingSize]vcEvent
	vcRingIdx uint64 // next slot (monotonic)
	vcTraceOn int32
	vcHits    [256]uint64 // per-point hit counters (coverage)
)

func vcObjID(obj interface{}) uintptr {
	switch v := obj.(type) {
	case *connection:
		return uintptr(unsafe.Pointer(v))
	case *FDOperator:
		return uintptr(unsafe.Pointer(v))
	case *defaultPoll:
		return uintptr(unsafe.Pointer(v))
	case *server:
		return uintptr(unsafe.Pointer(v))
	case *manager:
		return uintptr(unsafe.Pointer(v))
	case *netFD:
		return uintptr(unsafe.Pointer(v))
	case *listener:
		return uintptr(unsafe.Pointer(v))
	case Poll:
		if p, ok := v.(*defaultPoll); ok {
			return uintptr(unsafe.Pointer(p))
		}
	case nil:
		return 0
	}
	// interface holding a *TCPConnection/*UnixConnection etc.
	switch v := obj.(type) {
	case *TCPConnection:
		return uintptr(unsafe.Pointer(&v.connection))
	case *UnixConnection:
		return uintptr(unsafe.Pointer(&v.connection))
	}
	return 0
}

func vcConnID(c Connection) uintptr {
	switch v := c.(type) {
	case *connection:
		return uintptr(unsafe.Pointer(v))
	case *TCPConnection:
		return uintptr(unsafe.Pointer(&v.connection))
	case *UnixConnection:
		return uintptr(unsafe.Pointer(&v.connection))
	}
	return 0
}

func vcInner(c Connection) *connection {
	switch v := c.(type) {
	case *connection:
		return v
	case *TCPConnection:
		return &v.connection
	case *UnixConnection:
		return &v.connection
	}
	return nil
}

// vcTraceMark returns the current position of the trace; vcTraceSince returns the events
// recorded since a mark (at most the ring size).
func vcTraceMark() uint64 { return atomic.LoadUint64(&vcRingIdx) }

func vcTraceSince(mark uint64) []vcEvent {
	end := atomic.LoadUint64(&vcRingIdx)
	if end-mark > vcRingSize {
		mark = end - vcRingSize
	}
	out := make([]vcEvent, 0, end-mark)
	for i := mark; i < end; i++ {
		e := vcRing[i%vcRingSize]
		if e.Seq == i+1 { // slot completely written and not overwritten
			out = append(out, e)
		}
	}
	return out
}

// ------------------------------------------------------------------ perturbation plan

const (
	vcModeNone   = 0
	vcModeJitter = 1
	vcModePause  = 2
)

type vcPlan struct {
	Mode     int
	Seed     uint64
	JitterPM int           // per-mille probability of a delay at each point
	MaxSleep time.Duration // upper bound of one jitter delay
	// pause mode: the first goroutine reaching P (on object ObjP, 0 = any) parks until some
	// other goroutine has passed Q (on ObjQ, 0 = any) or Timeout elapsed.
	P, Q       int
	ObjP, ObjQ uintptr
	ArgQ       int // if >= 0: Q only counts with this arg
	Timeout    time.Duration
	OnPark     func() // optional, run in its own goroutine when P parks

	// state
	armed    int32 // 1 armed, 2 parked, 3 done
	qch      chan struct{}
	qonce    sync.Once
	realised int32
	parkedAt int64
}

var vcPlanPtr unsafe.Pointer // *vcPlan

func vcSetPlan(p *vcPlan) {
	if p != nil {
		p.armed = 1
		p.qch = make(chan struct{})
		if p.Timeout == 0 {
			p.Timeout = 20 * time.Millisecond
		}
	}
	atomic.StorePointer(&vcPlanPtr, unsafe.Pointer(p))
}

func vcGetPlan() *vcPlan { return (*vcPlan)(atomic.LoadPointer(&vcPlanPtr)) }

// Realised reports whether Q was passed while P was parked.
func (p *vcPlan) Realised() bool { return p != nil && atomic.LoadInt32(&p.realised) == 1 }

// Parked reports whether some goroutine reached P at all.
func (p *vcPlan) Parked() bool { return p != nil && atomic.LoadInt32(&p.armed) >= 2 }

// vcPoints must never be delayed: they sit where a delay could not add behaviour or
// would only stall (none today: no hook lies inside a spin-lock).
func vcPointHandler(id int, obj interface{}, arg int) {
	oid := vcObjID(obj)
	if id >= 0 && id < len(vcHits) {
		atomic.AddUint64(&vcHits[id], 1)
	}
	if atomic.LoadInt32(&vcTraceOn) != 0 {
		i := atomic.AddUint64(&vcRingIdx, 1) - 1
		e := &vcRing[i%vcRingSize]
		e.T, e.Point, e.Arg, e.Obj = vfNow(), int32(id), int32(arg), oid
		atomic.StoreUint64(&e.Seq, i+1)
	}
	if fn := vcPointCallback.Load(); fn != nil {
		if f, _ := fn.(func(int, uintptr, int)); f != nil {
			f(id, oid, arg)
		}
	}
	p := vcGetPlan()
	if p == nil {
		return
	}
	switch p.Mode {
	case vcModeJitter:
		h := vfMix2(p.Seed^uint64(id)<<32, atomic.LoadUint64(&vcHits[id&255]))
		if int(h%1000) < p.JitterPM {
			k := (h >> 12) % 8
			switch {
			case k < 3:
				runtime.Gosched()
			case k < 5:
				for j := 0; j < 3; j++ {
					runtime.Gosched()
				}
			default:
				d := time.Duration((h >> 20) % uint64(p.MaxSleep+1))
				time.Sleep(d)
			}
		}
	case vcModePause:
		if id == p.Q && (p.ObjQ == 0 || p.ObjQ == oid) && (p.ArgQ < 0 || p.ArgQ == arg) {
			if atomic.LoadInt32(&p.armed) == 2 {
				atomic.StoreInt32(&p.realised, 1)
				p.qonce.Do(func() { close(p.qch) })
			}
		}
		if id == p.P && (p.ObjP == 0 || p.ObjP == oid) && atomic.CompareAndSwapInt32(&p.armed, 1, 2) {
			atomic.StoreInt64(&p.parkedAt, vfNow())
			if p.OnPark != nil {
				go p.OnPark()
			}
			select {
			case <-p.qch:
			case <-time.After(p.Timeout):
			}
			atomic.StoreInt32(&p.armed, 3)
		}
	}
}

// vcPointCallback lets a scenario observe points synchronously (e.g. ledgers).
var vcPointCallback atomic.Value // func(id int, obj uintptr, arg int)

// ------------------------------------------------------------------ descriptor hook

var vcFDCallback atomic.Value // func(kind int, owner uintptr, fd int)

func vcFDHandler(kind int, owner interface{}, fd int) {
	if fn := vcFDCallback.Load(); fn != nil {
		if f, _ := fn.(func(int, uintptr, int)); f != nil {
			f(kind, vcObjID(owner), fd)
		}
	}
}

// ------------------------------------------------------------------ fault injection (verifFault)

// A fault rule makes the system call wrapper at Site fail with Errno: the first Skip
// matching calls pass, then Count calls fail (Count <= 0: every further one), or - with
// PerMille > 0 - each matching call fails with that probability (PRF of seed and call
// number, so a run is reproducible given the schedule). FD >= 0 restricts the rule to one
// descriptor number.
type vcFaultRule struct {
	Site     int
	Errno    syscall.Errno
	FD       int
	Skip     int64
	Count    int64
	PerMille int
	seen     int64
	fired    int64
}

type vcFaultPlan struct {
	Seed  uint64
	Rules []*vcFaultRule
}

var (
	vcFaultPtr   unsafe.Pointer   // *vcFaultPlan
	vcFaultFired [32]uint64       // per site, whole process (evidence)
	vcFaultCalls [32]uint64       // per site: wrapper calls seen while any plan was armed
)

const vpFaultBase = 200 // trace pseudo-points: 200+site, Arg = errno, Obj = descriptor

func vcSetFaults(p *vcFaultPlan) { atomic.StorePointer(&vcFaultPtr, unsafe.Pointer(p)) }

func (p *vcFaultPlan) Fired() (n int64) {
	if p == nil {
		return 0
	}
	for _, r := range p.Rules {
		n += atomic.LoadInt64(&r.fired)
	}
	return n
}

func vcFaultHandler(site, fd int) syscall.Errno {
	p := (*vcFaultPlan)(atomic.LoadPointer(&vcFaultPtr))
	if p == nil {
		return 0
	}
	if site >= 0 && site < len(vcFaultCalls) {
		atomic.AddUint64(&vcFaultCalls[site], 1)
	}
	for _, r := range p.Rules {
		if r.Site != site || (r.FD >= 0 && r.FD != fd) {
			continue
		}
		k := atomic.AddInt64(&r.seen, 1)
		hit := false
		if r.PerMille > 0 {
			hit = int(vfMix2(p.Seed^uint64(site)<<40, uint64(k))%1000) < r.PerMille
		} else if k > r.Skip && (r.Count <= 0 || k <= r.Skip+r.Count) {
			hit = true
		}
		if !hit {
			continue
		}
		atomic.AddInt64(&r.fired, 1)
		if site >= 0 && site < len(vcFaultFired) {
			atomic.AddUint64(&vcFaultFired[site], 1)
		}
		if atomic.LoadInt32(&vcTraceOn) != 0 {
			i := atomic.AddUint64(&vcRingIdx, 1) - 1
			e := &vcRing[i%vcRingSize]
			e.T, e.Point, e.Arg, e.Obj = vfNow(), int32(vpFaultBase+site), int32(r.Errno), uintptr(fd)
			atomic.StoreUint64(&e.Seq, i+1)
		}
		return r.Errno
	}
	return 0
}

var vcFaultSiteNames = map[int]string{vfltSocket: "socket", vfltSockopt: "setsockopt", vfltConnect: "connect", vfltConnectSoError: "connect(SO_ERROR)",
	vfltAccept: "accept", vfltEpollCreate: "epoll_create", vfltEpollCtlAdd: "epoll_ctl(ADD)", vfltEpollCtlDel: "epoll_ctl(DEL)", vfltEpollCtlMod: "epoll_ctl(MOD)",
	vfltSendmsg: "sendmsg", vfltWritev: "writev", vfltReadv: "readv"}

func vcInstallHooks() {
	verifFaultHandler.Store(func(site, fd int) syscall.Errno { return vcFaultHandler(site, fd) })
	verifPointHandler.Store(func(id int, obj interface{}, arg int) { vcPointHandler(id, obj, arg) })
	verifFDHandler.Store(func(kind int, owner interface{}, fd int) { vcFDHandler(kind, owner, fd) })
	atomic.StoreInt32(&vcTraceOn, 1)
}

// vcWaitPoint blocks until an event (point, obj) appears in the trace after mark, or the
// deadline passes; it returns whether it was seen. Polling the ring keeps the hook path free
// of condition variables.
func vcWaitPoint(mark uint64, point int, obj uintptr, d time.Duration) bool {
	deadline := time.Now().Add(d)
	for {
		for _, e := range vcTraceSince(mark) {
			if int(e.Point) == point && (obj == 0 || e.Obj == obj) {
				return true
			}
		}
		if time.Now().After(deadline) {
			return false
		}
		time.Sleep(50 * time.Microsecond)
	}
}

// vcWaitFlushParked waits until a Flush of connection obj is parked in waitFlush: with or without a
// write timer (a server-level WriteTimeout switches to the timer path, which has its own hook).
func vcWaitFlushParked(mark uint64, obj uintptr, d time.Duration) bool {
	deadline := time.Now().Add(d)
	for {
		for _, e := range vcTraceSince(mark) {
			if (int(e.Point) == vpWaitFlushBeforeBlock || int(e.Point) == vpWaitFlushBeforeSelect) && e.Obj == obj {
				return true
			}
		}
		if time.Now().After(deadline) {
			return false
		}
		time.Sleep(50 * time.Microsecond)
	}
}

// vcSeenSince: the trace since mark holds an event (point, obj).
func vcSeenSince(mark uint64, point int, obj uintptr) bool {
	for _, e := range vcTraceSince(mark) {
		if int(e.Point) == point && (obj == 0 || e.Obj == obj) {
			return true
		}
	}
	return false
}

func vcPointName(id int) string {
	if id >= vpFaultBase && id < vpFaultBase+vfltCount {
		return "FAULT@" + vcFaultSiteNames[id-vpFaultBase]
	}
	if id >= 0 && id < len(verifPointNames) {
		return verifPointNames[id]
	}
	return "?"
}

// vcTraceDump renders the events of one object (0 = all) for a replay file.
func vcTraceDump(evs []vcEvent, obj uintptr, max int) []string {
	var out []string
	for _, e := range evs {
		if obj != 0 && e.Obj != obj {
			continue
		}
		out = append(out, vfSprintf("%d +%dus %s obj=%x arg=%d", e.Seq, e.T/1000, vcPointName(int(e.Point)), e.Obj&0xffffff, e.Arg))
		if len(out) >= max {
			break
		}
	}
	return out
}
