// C08: Flush completes exactly when the kernel has taken the data.
package netpoll

import (
	"context"
	"errors"
	"fmt"
	"io"
	"net"
	"sync"
	"sync/atomic"
	"syscall"
	"time"
	"unsafe"
)

func init() {
	vcScenarios["C08"] = vcScenC08
	vcDirected["C08"] = []vcScenario{
		func(t *vcTrial) { vcRunC08TimerTie(t, 250) },
		func(t *vcTrial) { vcRunC08HupUnderDisconnect(t, false, false) },
		func(t *vcTrial) { vcRunC08HupUnderDisconnect(t, true, true) },
		func(t *vcTrial) { vcRunC08(t, vc08Cfg{Kind: "fdconn", Peer: "stall", TimeoutKind: "timeout", Size: 1 << 20, Flushes: 1}) },
		func(t *vcTrial) { vcRunC08(t, vc08Cfg{Kind: "fdconn", Peer: "stall", TimeoutKind: "deadline", Size: 1 << 20, Flushes: 1}) },
		func(t *vcTrial) { vcRunC08(t, vc08Cfg{Kind: "dial", Peer: "delay", TimeoutKind: "none", Size: 2 << 20, Flushes: 2, Second: true}) },
		func(t *vcTrial) {
			vcRunC08(t, vc08Cfg{Kind: "accept", Peer: "drain", TimeoutKind: "timeout", Size: 1 << 20, Flushes: 2, Mode: vcModePause, P: vpFlushAfterR2RW, Q: vpRw2rBeforeTrigger})
		},
	}
}

type vc08Cfg struct {
	Kind        string // dial | accept | fdconn
	Peer        string // drain | slow | delay | stall | close | rst
	TimeoutKind string // none | timeout | deadline
	Size        int
	Flushes     int
	Second      bool // a second goroutine calls Flush while the first is in progress
	LocalClose  bool
	Mode        int
	P, Q        int
	SndBuf      int
}

var vc08P = []int{vpFlushAfterSend, vpFlushBeforeR2RW, vpFlushAfterR2RW, vpWaitFlushBeforeBlock, vpWaitFlushBeforeSelect, vpWaitFlushTimer, vpWaitFlushTrigger}
var vc08Q = []int{vpOutputs, vpOutputAck, vpRw2rBeforeControl, vpRw2rBeforeTrigger, vpOnHupAfterTrigger, vpOnCloseWon, vpPollBatchEnd}

func vcScenC08(t *vcTrial) {
	r := t.R
	if r.intn(60) == 0 {
		vcRunC08TimerTie(t, r.rng(60, 250))
		return
	}
	if r.intn(40) == 0 {
		vcRunC08HupUnderDisconnect(t, r.chance(50), r.chance(50))
		return
	}
	cfg := vc08Cfg{Kind: []string{"dial", "accept", "fdconn"}[r.intn(3)]}
	cfg.Peer = []string{"drain", "drain", "slow", "delay", "stall", "close", "rst"}[r.intn(7)]
	cfg.TimeoutKind = []string{"none", "timeout", "deadline"}[r.intn(3)]
	switch r.intn(5) {
	case 0:
		cfg.Size = r.rng(1, 4096)
	case 1:
		cfg.Size = r.rng(4096, 256<<10)
	default:
		cfg.Size = r.rng(256<<10, 3<<20)
	}
	cfg.Flushes = r.rng(1, 3)
	cfg.Second = r.chance(40)
	cfg.LocalClose = r.chance(15)
	cfg.SndBuf = []int{4 << 10, 16 << 10, 64 << 10, 1 << 20}[r.intn(4)]
	switch r.intn(3) {
	case 0:
		cfg.Mode = vcModeJitter
	case 1:
		cfg.Mode = vcModePause
		cfg.P = vc08P[r.intn(len(vc08P))]
		cfg.Q = vc08Q[r.intn(len(vc08Q))]
	}
	vcRunC08(t, cfg)
}

// vcMakeWriterConn builds the connection under test plus the raw descriptor of its peer.
func vcMakeWriterConn(t *vcTrial, kind string) (Connection, int, func()) {
	switch kind {
	case "fdconn":
		fds, err := syscall.Socketpair(syscall.AF_UNIX, syscall.SOCK_STREAM, 0)
		if err != nil {
			t.Inconclusive("socketpair: %v", err)
			return nil, -1, nil
		}
		c, err := NewFDConnection(fds[0])
		if err != nil {
			t.Inconclusive("NewFDConnection: %v", err)
			return nil, -1, nil
		}
		return c, fds[1], func() { c.Close() }
	case "accept":
		srv, err := vcStartServer(vcSrvOpts{Network: "tcp", NoOnRequest: true})
		if err != nil {
			t.Inconclusive("server: %v", err)
			return nil, -1, nil
		}
		raw, err := vcDialRaw(srv)
		if err != nil {
			srv.Stop(time.Second)
			t.Inconclusive("dial: %v", err)
			return nil, -1, nil
		}
		rec := srv.nextAccepted(3 * time.Second)
		if rec == nil {
			raw.Close()
			srv.Stop(time.Second)
			t.Inconclusive("accept not seen")
			return nil, -1, nil
		}
		pfd := vcStealFD(raw)
		return rec.Conn, pfd, func() { rec.Conn.Close(); srv.Stop(2 * time.Second) }
	default:
		ln, err := net.Listen("tcp", "127.0.0.1:0")
		if err != nil {
			t.Inconclusive("listen: %v", err)
			return nil, -1, nil
		}
		acc := make(chan net.Conn, 1)
		go func() {
			c, err := ln.Accept()
			if err == nil {
				acc <- c
			}
		}()
		c, err := DialConnection("tcp", ln.Addr().String(), 5*time.Second)
		if err != nil {
			ln.Close()
			t.Inconclusive("dial: %v", err)
			return nil, -1, nil
		}
		var raw net.Conn
		select {
		case raw = <-acc:
		case <-time.After(5 * time.Second):
			ln.Close()
			c.Close()
			t.Inconclusive("accept timeout")
			return nil, -1, nil
		}
		pfd := vcStealFD(raw)
		return c, pfd, func() { c.Close(); ln.Close() }
	}
}

// vc08Peer reads from a raw blocking descriptor under the control of the trial.
type vc08Peer struct {
	fd      int
	seed    uint64
	got     uint64 // bytes received and verified
	bad     atomic.Value
	mode    int32 // 0 stalled, 1 draining, 2 slow
	eof     int32
	errno   atomic.Value
	closed  int32
	done    chan struct{}
	closeMu sync.Mutex
}

func (p *vc08Peer) run() {
	defer close(p.done)
	buf := make([]byte, 64<<10)
	for {
		m := atomic.LoadInt32(&p.mode)
		if atomic.LoadInt32(&p.closed) != 0 {
			return
		}
		if m == 0 {
			time.Sleep(200 * time.Microsecond)
			continue
		}
		lim := len(buf)
		if m == 2 {
			lim = 2048
			time.Sleep(300 * time.Microsecond)
		}
		// poll with a timeout so that mode changes and close are noticed
		var fds [1]pollFd
		fds[0] = pollFd{fd: int32(p.fd), events: 1}
		if n, _ := sysPoll(fds[:], 20); n <= 0 {
			continue
		}
		p.closeMu.Lock()
		if atomic.LoadInt32(&p.closed) != 0 {
			p.closeMu.Unlock()
			return
		}
		n, err := syscall.Read(p.fd, buf[:lim])
		p.closeMu.Unlock()
		if err != nil {
			if err == syscall.EAGAIN || err == syscall.EINTR {
				continue
			}
			p.errno.Store(err.Error())
			return
		}
		if n == 0 {
			atomic.StoreInt32(&p.eof, 1)
			return
		}
		pos := atomic.LoadUint64(&p.got)
		if i := vfCheck(buf[:n], p.seed, pos); i >= 0 && p.bad.Load() == nil {
			p.bad.Store(fmt.Sprintf("peer received a wrong byte at stream position %d", pos+uint64(i)))
		}
		atomic.AddUint64(&p.got, uint64(n))
	}
}

// close ends the peer exactly once: FIN (close) or RST (SO_LINGER 0 + close). The descriptor is
// owned by the harness alone.
func (p *vc08Peer) close(rst bool) {
	p.closeMu.Lock()
	defer p.closeMu.Unlock()
	if atomic.CompareAndSwapInt32(&p.closed, 0, 1) {
		if rst {
			syscall.SetsockoptLinger(p.fd, syscall.SOL_SOCKET, syscall.SO_LINGER, &syscall.Linger{Onoff: 1, Linger: 0})
		}
		syscall.Close(p.fd)
	}
}

// vcStealFD turns a std connection into a raw descriptor owned by the harness.
func vcStealFD(c net.Conn) int {
	f, err := c.(*net.TCPConn).File()
	c.Close()
	if err != nil {
		return -1
	}
	fd, _ := syscall.Dup(int(f.Fd()))
	f.Close()
	return fd
}

type pollFd struct {
	fd      int32
	events  int16
	revents int16
}

func sysPoll(fds []pollFd, ms int) (int, error) {
	r, _, e := syscall.Syscall(syscall.SYS_POLL, uintptr(unsafe.Pointer(&fds[0])), uintptr(len(fds)), uintptr(ms))
	if e != 0 {
		return int(r), e
	}
	return int(r), nil
}

func vcRunC08(t *vcTrial, cfg vc08Cfg) {
	r := t.R
	t.P("cfg", fmt.Sprintf("%+v", cfg))
	t.P("P", vcPointName(cfg.P))
	t.P("Q", vcPointName(cfg.Q))
	conn, pfd, cleanup := vcMakeWriterConn(t, cfg.Kind)
	if conn == nil {
		return
	}
	defer cleanup()
	inner := vcInner(conn)
	if cfg.SndBuf == 0 {
		cfg.SndBuf = 4 << 10
	}
	vcSetBuf(conn.(Conn).Fd(), cfg.SndBuf, 0)
	vcSetBuf(pfd, 0, 16<<10)
	if cfg.Kind != "fdconn" && cfg.Size > 512<<10 {
		cfg.Size = 512 << 10 // TCP with small socket buffers crawls; volume goes over the socketpair
	}
	seed := r.next()
	peer := &vc08Peer{fd: pfd, seed: seed, done: make(chan struct{})}
	switch cfg.Peer {
	case "drain", "close", "rst":
		peer.mode = 1
	case "slow":
		peer.mode = 2
	}
	go peer.run()
	defer func() {
		peer.close(false)
		<-peer.done
	}()
	switch cfg.Mode {
	case vcModeJitter:
		t.Plan = &vcPlan{Mode: vcModeJitter, Seed: r.next(), JitterPM: r.rng(50, 400), MaxSleep: time.Duration(r.rng(1, 300)) * time.Microsecond}
	case vcModePause:
		t.Plan = &vcPlan{Mode: vcModePause, P: cfg.P, Q: cfg.Q, ObjP: vcConnID(conn), ArgQ: -1, Timeout: time.Duration(r.rng(1, 10)) * time.Millisecond}
	}
	vcSetPlan(t.Plan)
	defer vcSetPlan(nil)
	if faultPM := []int{0, 0, 0, 100, 400}[r.intn(5)]; faultPM > 0 {
		// spurious EAGAIN at the sendmsg wrapper: partial-write boundaries at any position
		fp := &vcFaultPlan{Seed: r.next(), Rules: []*vcFaultRule{{Site: vfltSendmsg, Errno: syscall.EAGAIN, FD: -1, PerMille: faultPM}}}
		vcSetFaults(fp)
		defer func() {
			vcSetFaults(nil)
			t.Stat("spurious_eagain_injected", int(fp.Fired()))
		}()
	}
	mark := vcTraceMark()
	w := &vcStreamWriter{C: conn, Seed: seed, R: vfNewRng(r.next()), MaxMsg: 256 << 10, NoSelfFlush: true}
	outcomes := ""
	rejected, viaPoller := 0, 0
	var firstErr error
	for fi := 0; fi < cfg.Flushes && firstErr == nil && !t.Violated(); fi++ {
		imark := vcTraceMark() // "parked" must be this iteration's flush, not an earlier one's
		// submit (no flush inside Step: flushPct 0, and no self-flushing patterns while pending)
		target := cfg.Size / cfg.Flushes
		if target < 1 {
			target = 1
		}
		start := w.Pos
		for int(w.Pos-start) < target && w.Err == nil {
			before := w.Pos
			w.Step(target-int(w.Pos-start), 0)
			if w.Pos == before {
				break
			}
		}
		if w.Err != nil {
			firstErr = w.Err
			break
		}
		d := time.Duration(r.rng(2, 40)) * time.Millisecond
		switch cfg.TimeoutKind {
		case "none":
			conn.SetWriteTimeout(0)
			conn.SetWriteDeadline(time.Time{})
		case "timeout":
			conn.SetWriteTimeout(d)
		}
		type fres struct {
			err     error
			elapsed time.Duration
			retAt   time.Time
			dlAbs   time.Time
			outLen  int
			pan     interface{}
		}
		resCh := make(chan fres, 1)
		var firstRet int64 // monotonic time at which the first Flush returned (0: still in progress)
		started := make(chan struct{})
		var callStart time.Time
		go func() {
			var res fres
			defer func() {
				if p := recover(); p != nil {
					res.pan = p
				}
				resCh <- res
			}()
			if cfg.TimeoutKind == "deadline" {
				res.dlAbs = time.Now().Add(d)
				conn.SetWriteDeadline(res.dlAbs)
			}
			callStart = time.Now()
			close(started)
			res.err = conn.Writer().Flush()
			atomic.StoreInt64(&firstRet, vfNow())
			res.retAt = time.Now()
			res.elapsed = res.retAt.Sub(callStart)
			res.outLen = inner.outputBuffer.Len()
		}()
		<-started
		// a second goroutine flushing while the first is parked in waitFlush
		var secondErr error
		secondDone := make(chan struct{})
		secondOverlap := false
		secondUsesWrite := r.chance(50)
		secondLen, secondWrote := r.rng(1, 64), 0
		secondMallocs, secondMalloced := r.chance(50), 0
		secondFlushedTo := uint64(0)
		thirdFlushed := false
		thirdBad := ""
		// a second Flush/Write is only issued where the first cannot end by a write timeout meanwhile:
		// flushing again after a write timeout is outside the contract (the poller may still be
		// sending from the output buffer) and would corrupt the stream by the harness's own doing
		if cfg.Second && cfg.TimeoutKind == "none" {
			go func() {
				defer close(secondDone)
				// wait (bounded) until the first flusher is parked: only then "in progress" is certain
				parked := vcWaitPoint(imark, vpWaitFlushBeforeBlock, vcConnID(conn), 30*time.Millisecond) || vcWaitPoint(imark, vpWaitFlushBeforeSelect, vcConnID(conn), time.Millisecond)
				if !parked {
					return
				}
				if len(resCh) > 0 {
					return // the first call already returned: no overlap
				}
				secondOverlap = true
				if secondUsesWrite {
					// the payload is what the stream would continue with: admitted (legal only when the
					// first call had finished) it simply is the next piece; rejected it must leave no
					// trace - if it leaks into the output buffer the peer sees these bytes twice
					p := make([]byte, secondLen)
					vfFill(p, w.Seed, w.Pos)
					var n int
					n, secondErr = conn.Write(p)
					if secondErr == nil {
						secondWrote = n
					}
				} else if secondMallocs {
					// Malloc + Flush by the second goroutine: rejected, the Flush may not have published
					// anything - its bytes stay submitted-but-unflushed until a Flush that succeeds
					if b, err := conn.Writer().Malloc(secondLen); err == nil {
						vfFill(b, w.Seed, w.Pos)
						secondMalloced = secondLen
					}
					secondErr = conn.Writer().Flush()
				} else {
					secondErr = conn.Writer().Flush()
				}
				// only where the first call cannot end by a write timeout meanwhile: after a write timeout
				// the connection must not be flushed again (the poller may still own the output buffer)
				if !errors.Is(secondErr, ErrConcurrentAccess) || atomic.LoadInt64(&firstRet) != 0 {
					return
				}
				// the first call is still in progress (it was parked and has not returned): a further call
				// must be rejected as well - the rejected one may not have disturbed the first's lock
				thirdCh := make(chan error, 1)
				go func() { thirdCh <- conn.Writer().Flush() }()
				select {
				case e := <-thirdCh:
					if e == nil && secondMalloced > 0 {
						// admitted (the first call had finished by then): it has flushed the bytes the
						// rejected second call had left submitted
						thirdFlushed = true
					}
					if !errors.Is(e, ErrConcurrentAccess) && !errors.Is(e, ErrConnClosed) {
						time.Sleep(2 * time.Millisecond) // the first may be between its return and its timestamp
						if atomic.LoadInt64(&firstRet) == 0 {
							thirdBad = fmt.Sprintf("returned %v", e)
						}
					}
				case <-time.After(2 * time.Second):
					if atomic.LoadInt64(&firstRet) == 0 {
						thirdBad = "was admitted and is blocked next to the first one"
					}
				}
			}()
		} else {
			close(secondDone)
		}
		// drive the peer
		switch cfg.Peer {
		case "delay":
			time.Sleep(time.Duration(r.rng(1, 30)) * time.Millisecond)
			atomic.StoreInt32(&peer.mode, 1)
		case "close":
			time.Sleep(time.Duration(r.rng(0, 3000)) * time.Microsecond)
			peer.close(false)
		case "rst":
			time.Sleep(time.Duration(r.rng(0, 3000)) * time.Microsecond)
			peer.close(true)
		case "stall":
			if cfg.TimeoutKind == "none" {
				// nothing would ever end this flush: end it by a local Close or by draining later
				time.Sleep(time.Duration(r.rng(1, 10)) * time.Millisecond)
				if cfg.LocalClose {
					go conn.Close()
				} else {
					atomic.StoreInt32(&peer.mode, 1)
				}
			}
		}
		if cfg.LocalClose && cfg.Peer != "stall" {
			time.Sleep(time.Duration(r.rng(0, 3000)) * time.Microsecond)
			go conn.Close()
		}
		var res fres
		select {
		case res = <-resCh:
		case <-time.After(20*time.Second + d):
			cond := ""
			switch {
			case inner.outputBuffer.Len() == 0:
				cond = "the output buffer is empty (the kernel took everything)"
			case !inner.IsActive():
				cond = "the connection is closed"
			case cfg.TimeoutKind != "none":
				cond = fmt.Sprintf("its %v %s expired long ago", d, cfg.TimeoutKind)
			}
			if cond != "" && vcRunnerProgress(5, 5*time.Second) {
				time.Sleep(100 * time.Millisecond)
				select {
				case res = <-resCh:
				default:
					t.Violate("C08", "flusher_stuck", "Flush of %d bytes has not returned %v after the call although %s; runner canary tasks completed meanwhile", w.Pos-w.Flushed, time.Since(callStart).Round(time.Millisecond), cond)
					t.P("stuck_stacks", vcStacksContaining("waitFlush"))
					return
				}
			} else {
				t.Inconclusive("Flush did not return within %v; peer=%s got=%d of %d; no stuck-state witness", 20*time.Second+d, cfg.Peer, atomic.LoadUint64(&peer.got), w.Pos)
				atomic.StoreInt32(&peer.mode, 1)
				return
			}
		}
		<-secondDone
		if secondWrote > 0 {
			w.Pos += uint64(secondWrote) // an admitted Write: its bytes follow everything submitted before
			t.Stat("second_write_admitted", 1)
		}
		if secondMalloced > 0 {
			w.Pos += uint64(secondMalloced) // submitted; flushed only if that Flush (or a later one) succeeded
			if secondErr == nil {
				secondFlushedTo = w.Pos
			}
			t.Stat("second_malloc_flush", 1)
		}
		desc := fmt.Sprintf("flush #%d of %d bytes (peer=%s, timeout=%s/%v, sndbuf=%d)", fi, w.Pos-w.Flushed, cfg.Peer, cfg.TimeoutKind, d, cfg.SndBuf)
		if res.pan != nil {
			t.Violate("C08", "panic", "%s panicked: %v", desc, res.pan)
			return
		}
		switch {
		case res.err == nil:
			if res.outLen != 0 && !cfg.Second {
				t.Violate("C08", "nil_with_pending", "%s returned nil with %d bytes still in the output buffer", desc, res.outLen)
			}
			w.Flushed = w.Pos
			if secondMalloced > 0 && secondFlushedTo == 0 && !thirdFlushed {
				// the second goroutine's bytes were submitted after the first Flush had started and its
				// own Flush was rejected: they are not flushed yet
				w.Flushed = w.Pos - uint64(secondMalloced)
			}
			w.epochWB, w.epochWD = false, false
			outcomes += "n"
		case errors.Is(res.err, ErrWriteTimeout):
			if cfg.TimeoutKind == "none" {
				t.Violate("C08", "timeout_without_timeout", "%s returned ErrWriteTimeout with no write timeout or deadline set", desc)
			}
			if cfg.TimeoutKind == "timeout" && res.elapsed < d {
				t.Violate("C08", "early_timeout", "%s returned ErrWriteTimeout after %v, before its %v elapsed", desc, res.elapsed, d)
			}
			if cfg.TimeoutKind == "deadline" && res.retAt.Before(res.dlAbs.Add(-time.Millisecond)) {
				t.Violate("C08", "early_timeout", "%s returned ErrWriteTimeout %v before its deadline", desc, res.dlAbs.Sub(res.retAt))
			}
			firstErr = res.err
			outcomes += "t"
		case errors.Is(res.err, ErrConcurrentAccess):
			// the *first* flusher may only be rejected when the second one really overlapped
			if !secondOverlap {
				t.Violate("C08", "spurious_rejection", "%s was rejected with ErrConcurrentAccess although no other Flush/Write was in progress", desc)
			}
			firstErr = res.err
			outcomes += "c"
		default:
			peerGone := cfg.Peer == "close" || cfg.Peer == "rst"
			if !peerGone && !cfg.LocalClose {
				t.Violate("C08", "spurious_error", "%s failed with %v although nobody closed the connection and no timeout was set to expire", desc, res.err)
			}
			if cfg.LocalClose && !peerGone && !errors.Is(res.err, ErrConnClosed) {
				t.Violate("C08", "error_class", "%s: closed locally but the error is %v, want ErrConnClosed", desc, res.err)
			}
			firstErr = res.err
			outcomes += "e"
		}
		if thirdBad != "" {
			t.Violate("C08", "concurrent_flush_admitted", "while a Flush was parked in waitFlush a second call (Write=%v) was rejected with ErrConcurrentAccess, but a third Flush issued right after it %s: the rejected call disturbed the first one's lock", secondUsesWrite, thirdBad)
		}
		if secondOverlap {
			// the second call started while the first was parked in waitFlush
			if secondErr == nil {
				// legal only if the first had already finished when the second took the lock
				if res.retAt.After(time.Now()) {
					_ = 0
				}
				t.Stat("second_flush_after_first_finished", 1)
			} else if errors.Is(secondErr, ErrConcurrentAccess) {
				rejected++
			} else if !errors.Is(secondErr, ErrConnClosed) && firstErr == nil && cfg.Peer != "close" && cfg.Peer != "rst" {
				// (a peer that closes or resets makes any later flush fail with whatever the kernel says)
				t.Violate("C08", "second_flush_error", "a Flush issued while another was in progress returned %v (want ErrConcurrentAccess)", secondErr)
			}
		}
	}
	// ---- the kernel took it: with no further sender action the peer must end up with exactly the flushed stream
	peerEndsEarly := cfg.Peer == "close" || cfg.Peer == "rst"
	if firstErr == nil && !t.Violated() && !peerEndsEarly && !cfg.LocalClose {
		atomic.StoreInt32(&peer.mode, 1)
		conn.Close() // FIN after the data
		select {
		case <-peer.done:
		case <-time.After(20 * time.Second):
			t.Inconclusive("peer did not reach end-of-stream within 20s (got %d of %d)", atomic.LoadUint64(&peer.got), w.Flushed)
			return
		}
		if b, _ := peer.bad.Load().(string); b != "" {
			t.Violate("C08", "stream_corrupted", "%s", b)
		} else if got := atomic.LoadUint64(&peer.got); got != w.Flushed {
			t.Violate("C08", "nil_but_short", "every Flush returned nil for %d bytes in total but the peer, draining to end-of-stream, received %d (errno %v)", w.Flushed, got, peer.errno.Load())
		}
	} else if b, _ := peer.bad.Load().(string); b != "" {
		t.Violate("C08", "stream_corrupted", "%s (prefix before the first write error)", b)
	} else if got := atomic.LoadUint64(&peer.got); got > w.Pos {
		t.Violate("C08", "stream_corrupted", "peer received %d bytes, only %d were submitted", got, w.Pos)
	}
	for _, e := range vcTraceSince(mark) {
		if e.Obj == vcConnID(conn) && int(e.Point) == vpFlushAfterR2RW {
			viaPoller++
		}
	}
	t.Stat("flushes", len(outcomes))
	t.Stat("flushes_via_poller", viaPoller)
	t.Stat("concurrent_flush_rejected", rejected)
	for _, ch := range outcomes {
		t.Stat("outcome_"+string(ch), 1)
	}
	if t.Plan != nil && t.Plan.Mode == vcModePause {
		t.Stat("pause_pairs_attempted", 1)
		if t.Plan.Realised() {
			t.Stat("pause_pairs_realised", 1)
		}
	}
	t.Nontrivial = viaPoller > 0
	t.Sig = fmt.Sprintf("%s|%s|%s|%s|rej=%v|real=%v", cfg.Kind, cfg.Peer, cfg.TimeoutKind, outcomes, rejected > 0, t.Plan.Realised())
	_ = io.EOF
}


// vcRunC08TimerTie: the write-timer twin of C07's read-timer tie. On one connection with a write
// timeout T the peer starts to drain a blocked flush at about T (the lead is steered by feedback so
// that the flush completes just before the timer about as often as it times out); after a flush that
// completed, a second blocked flush with a long timeout is made: it may not report ErrWriteTimeout
// before its own timeout ("never early"). A flush that timed out ends the connection (flushing
// again after a write timeout is outside the contract): the scenario goes on with a fresh one.
func vcRunC08TimerTie(t *vcTrial, rounds int) {
	t.P("variant", "write-timer tie, then a long-timeout flush")
	r := t.R
	T := time.Duration(r.rng(2, 5)) * time.Millisecond
	lead := T - 300*time.Microsecond // when the peer starts draining, relative to the Flush call
	completed, timedOut, followUps := 0, 0, 0
	var conn Connection
	var pfd int = -1
	var cleanup func()
	junk := make([]byte, 64<<10)
	fresh := func() bool {
		if cleanup != nil {
			syscall.Close(pfd)
			cleanup()
		}
		conn, pfd, cleanup = vcMakeWriterConn(t, "fdconn")
		if conn == nil {
			return false
		}
		vcSetBuf(int(conn.(Conn).Fd()), 4096, 0)
		syscall.SetNonblock(pfd, true)
		return true
	}
	drain := func() {
		buf := make([]byte, 256<<10)
		for {
			n, _ := syscall.Read(pfd, buf)
			if n <= 0 {
				return
			}
		}
	}
	if !fresh() {
		return
	}
	defer func() {
		if cleanup != nil {
			syscall.Close(pfd)
			cleanup()
		}
	}()
	blockedFlush := func(timeout time.Duration, drainAfter time.Duration) (error, time.Duration) {
		conn.SetWriteTimeout(timeout)
		// more than the socket takes: the flush has to wait for the peer
		for i := 0; i < 2; i++ {
			conn.Writer().WriteBinary(junk[:24<<10])
		}
		done := make(chan struct{})
		exited := make(chan struct{})
		go func() {
			defer close(exited)
			time.Sleep(drainAfter)
			for {
				drain()
				select {
				case <-done:
					drain()
					return
				default:
					time.Sleep(50 * time.Microsecond)
				}
			}
		}()
		t0 := time.Now()
		err := conn.Writer().Flush()
		el := time.Since(t0)
		close(done)
		<-exited // the drainer must be gone before the descriptor number can be closed and re-issued
		return err, el
	}
	for i := 0; i < rounds && !t.Violated(); i++ {
		err, _ := blockedFlush(T, lead+time.Duration(r.intn(200))*time.Microsecond)
		switch {
		case err == nil:
			completed++
			lead += 20 * time.Microsecond
			// the follow-up: long timeout, the peer drains after a millisecond
			long := 2 * time.Second
			err2, el2 := blockedFlush(long, time.Millisecond)
			followUps++
			if errors.Is(err2, ErrWriteTimeout) && el2 < long {
				t.Violate("C08", "early_timeout", "round %d: a Flush with a %v write timeout returned ErrWriteTimeout after %v; the previous Flush on this connection (timeout %v) had completed at about the moment its timer expired (stale timer tick?)", i, long, el2, T)
				return
			}
			if err2 != nil {
				if !fresh() {
					return
				}
			}
		case errors.Is(err, ErrWriteTimeout):
			timedOut++
			lead -= 40 * time.Microsecond
			if lead < 0 {
				lead = 0
			}
			if !fresh() {
				return
			}
		default:
			if !fresh() {
				return
			}
		}
	}
	t.Stat("timer_tie_rounds", completed+timedOut)
	t.Stat("timer_tie_completed", completed)
	t.Stat("timer_tie_timed_out", timedOut)
	t.Stat("timer_tie_follow_ups", followUps)
	t.Nontrivial = completed > 5 && timedOut > 5
	t.Sig = fmt.Sprintf("write-timer-tie|balanced=%v", t.Nontrivial)
}

// vcRunC08HupUnderDisconnect: an accepted connection with OnConnect/OnDisconnect callbacks, a Flush
// parked on a full socket, then the peer closes. "Fails with ErrConnClosed if the connection is
// closed; it never waits beyond that": the parked Flush must return although the user's
// OnDisconnect callback is still running - here the callback waits for the Flush (as a callback
// that takes the writer's mutex would) and gives up after eight seconds.
func vcRunC08HupUnderDisconnect(t *vcTrial, rst bool, withOnRequest bool) {
	t.P("variant", "blocked Flush, peer closes, OnDisconnect waits for the writer")
	t.P("rst", rst)
	t.P("with_onrequest", withOnRequest)
	flushRet := make(chan struct{})
	var gaveUp, cbRan int32
	so := vcSrvOpts{Network: "tcp", NoOnRequest: !withOnRequest}
	so.OnConnect = func(ctx context.Context, rec *vcConnRec) {}
	so.OnDisconnect = func(ctx context.Context, rec *vcConnRec) {
		atomic.StoreInt32(&cbRan, 1)
		select {
		case <-flushRet:
		case <-time.After(8 * time.Second):
			atomic.StoreInt32(&gaveUp, 1)
		}
	}
	if withOnRequest {
		so.OnRequest = func(ctx context.Context, rec *vcConnRec) error {
			rec.Conn.Reader().Skip(rec.Conn.Reader().Len())
			rec.Conn.Reader().Release()
			return nil
		}
	}
	srv, err := vcStartServer(so)
	if err != nil {
		t.Inconclusive("server: %v", err)
		return
	}
	defer srv.Stop(2 * time.Second)
	raw, err := vcDialRaw(srv)
	if err != nil {
		t.Inconclusive("dial: %v", err)
		return
	}
	rec := srv.nextAccepted(3 * time.Second)
	if rec == nil {
		raw.Close()
		t.Inconclusive("accept not seen")
		return
	}
	conn := rec.Conn
	defer conn.Close()
	pfd := vcStealFD(raw)
	peer := &vc08Peer{fd: pfd, seed: 1, done: make(chan struct{})} // mode 0: never reads
	defer peer.close(false)
	vcSetBuf(conn.(Conn).Fd(), 4<<10, 0)
	vcSetBuf(pfd, 0, 16<<10)
	conn.SetWriteTimeout(0)
	conn.SetWriteDeadline(time.Time{})
	mark := vcTraceMark()
	stopCanary := vcSchedCanary()
	var ferr error
	var retAt int64
	go func() {
		defer close(flushRet)
		b, err := conn.Writer().Malloc(2 << 20)
		if err != nil {
			ferr = err
			return
		}
		vfFill(b, 1, 0)
		ferr = conn.Writer().Flush()
		atomic.StoreInt64(&retAt, vfNow())
	}()
	if !vcWaitFlushParked(mark, vcConnID(conn), 5*time.Second) {
		stopCanary()
		peer.close(false)
		select {
		case <-flushRet:
		case <-time.After(10 * time.Second):
		}
		t.Inconclusive("the Flush did not park on the full socket")
		return
	}
	time.Sleep(time.Duration(t.R.rng(0, 2000)) * time.Microsecond)
	closedAt := vfNow()
	peer.close(rst)
	select {
	case <-flushRet:
	case <-time.After(30 * time.Second):
		stopCanary()
		if vcRunnerProgress(5, 5*time.Second) {
			t.Violate("C08", "flush_stuck", "a Flush parked on a full socket has not returned 30 s after the peer closed (OnDisconnect callback ran: %v, gave up waiting for the writer: %v)", atomic.LoadInt32(&cbRan) != 0, atomic.LoadInt32(&gaveUp) != 0)
		} else {
			t.Inconclusive("flush did not return, runner canary without progress")
		}
		return
	}
	starved := stopCanary()
	t.P("longest_2ms_sleep", starved.String())
	waited := time.Duration(atomic.LoadInt64(&retAt) - closedAt)
	if ferr == nil {
		t.Violate("C08", "nil_but_short", "Flush of 2 MB returned nil although the peer never read and closed")
	}
	t.P("flush_error", fmt.Sprint(ferr))
	if atomic.LoadInt32(&gaveUp) != 0 {
		if starved > time.Second {
			t.Inconclusive("OnDisconnect gave up waiting for the writer on a starved machine (a 2 ms sleep took %v)", starved)
			return
		}
		t.Violate("C08", "flush_waits_beyond_close", "the peer closed while a Flush was parked on the full socket: the Flush stayed blocked for as long as the user's OnDisconnect callback ran (the callback waited 8 s for the writer and gave up; Flush returned %v after the peer's close with %v): the wait went beyond the close of the connection", waited, ferr)
		return
	}
	t.Nontrivial = atomic.LoadInt32(&cbRan) != 0
	t.Stat("hup_under_disconnect_trials", 1)
	t.Sig = fmt.Sprintf("hup-under-disconnect|rst=%v|req=%v|cb=%v", rst, withOnRequest, t.Nontrivial)
}
