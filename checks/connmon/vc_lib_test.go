// Shared scaffolding of the connmon scenarios: trial framework, instrumented server,
// per-connection callback histories, socket helpers.
package netpoll

import (
	"context"
	"errors"
	"fmt"
	"io/ioutil"
	"net"
	"os"
	"path/filepath"
	"runtime"
	"sort"
	"strings"
	"sync"
	"sync/atomic"
	"syscall"
	"testing"
	"time"
	"unsafe"
)

// ------------------------------------------------------------------ violations / trials

type vcViol struct {
	Prop   string                 `json:"property"`
	Kind   string                 `json:"oracle"`
	Msg    string                 `json:"msg"`
	Detail map[string]interface{} `json:"detail,omitempty"`
}

type vcTrial struct {
	Scen  string
	Idx   int
	Seed  uint64
	R     *vfRng
	Plan  *vcPlan
	Mark  uint64
	Param map[string]interface{} // scenario parameters (written into replay files / samples)

	mu           sync.Mutex
	viol         *vcViol
	inconclusive string
	Nontrivial   bool
	Sig          string
	Stats        map[string]int
}

func (t *vcTrial) Violate(prop, kind, f string, a ...interface{}) {
	t.mu.Lock()
	defer t.mu.Unlock()
	if t.viol == nil {
		t.viol = &vcViol{Prop: prop, Kind: kind, Msg: fmt.Sprintf(f, a...)}
	}
}

func (t *vcTrial) Violated() bool {
	t.mu.Lock()
	defer t.mu.Unlock()
	return t.viol != nil
}

func (t *vcTrial) Inconclusive(f string, a ...interface{}) {
	t.mu.Lock()
	defer t.mu.Unlock()
	if t.inconclusive == "" {
		t.inconclusive = fmt.Sprintf(f, a...)
	}
}

func (t *vcTrial) Stat(k string, n int) {
	t.mu.Lock()
	if t.Stats == nil {
		t.Stats = map[string]int{}
	}
	t.Stats[k] += n
	t.mu.Unlock()
}

func (t *vcTrial) P(k string, v interface{}) {
	t.mu.Lock()
	if t.Param == nil {
		t.Param = map[string]interface{}{}
	}
	t.Param[k] = v
	t.mu.Unlock()
}

// ------------------------------------------------------------------ callback histories

const (
	vcCbPrepareStart = iota + 1
	vcCbPrepareEnd
	vcCbConnectStart
	vcCbConnectEnd
	vcCbRequestStart
	vcCbRequestEnd
	vcCbDisconnectStart
	vcCbDisconnectEnd
	vcCbClose // Idx = registration index
)

var vcCbNames = map[int]string{1: "prepare+", 2: "prepare-", 3: "connect+", 4: "connect-", 5: "request+", 6: "request-", 7: "disconnect+", 8: "disconnect-", 9: "closecb"}

type vcCbEvent struct {
	Seq   uint64
	Kind  int
	Idx   int
	Depth int32 // request-handler depth at that moment
}

type vcConnRec struct {
	ID    uintptr
	Conn  Connection
	FD    int
	mu    sync.Mutex
	evs   []vcCbEvent
	depth int32 // OnRequest invocations in progress
	maxD  int32
	ncb   int // registered close callbacks
	// scenario data
	Data       interface{}
	acceptedAt int64
	prepMark   uint64 // trace position when OnPrepare started
	done chan struct{} // closed when the last (outermost-registered) close callback ran
	once sync.Once
}

func (r *vcConnRec) add(kind, idx int) {
	e := vcCbEvent{Seq: vfNextSeq(), Kind: kind, Idx: idx, Depth: atomic.LoadInt32(&r.depth)}
	r.mu.Lock()
	r.evs = append(r.evs, e)
	r.mu.Unlock()
}

func (r *vcConnRec) events() []vcCbEvent {
	r.mu.Lock()
	defer r.mu.Unlock()
	return append([]vcCbEvent(nil), r.evs...)
}

func (r *vcConnRec) count(kind int) int {
	n := 0
	for _, e := range r.events() {
		if e.Kind == kind {
			n++
		}
	}
	return n
}

func (r *vcConnRec) history() []string {
	var out []string
	for _, e := range r.events() {
		s := vcCbNames[e.Kind]
		if e.Kind == vcCbClose {
			s = fmt.Sprintf("closecb[%d]@depth%d", e.Idx, e.Depth)
		}
		out = append(out, s)
	}
	return out
}

// registerCloseCallbacks adds k recording callbacks (index 0 registered first).
func (r *vcConnRec) registerCloseCallbacks(c Connection, k int) {
	r.ncb = k
	errs := atomic.AddUint64(&vcCloseCbSeq, 1)%2 == 1
	for i := 0; i < k; i++ {
		i := i
		c.AddCloseCallback(func(Connection) error {
			r.add(vcCbClose, i)
			if i == 0 { // registered first => runs last
				r.once.Do(func() { close(r.done) })
			}
			// a close callback's return value is the user's business: every second connection has
			// callbacks that report an error - the others and the teardown must not depend on it
			if errs && i != 0 {
				return vcErrCloseCallback
			}
			return nil
		})
	}
}

var vcCloseCbSeq uint64

var vcErrCloseCallback = fmt.Errorf("verif: a close callback reporting an error")

// waitClosed waits until the close callbacks have run (bounded).
func (r *vcConnRec) waitClosed(d time.Duration) bool {
	select {
	case <-r.done:
		return true
	case <-time.After(d):
		return false
	}
}

// checkCloseCallbacks verifies exactly-once, reverse order, and "not while the handler runs".
// It returns a description of the first problem or "".
func (r *vcConnRec) checkCloseCallbacks() string {
	var seen []int
	for _, e := range r.events() {
		if e.Kind == vcCbClose {
			seen = append(seen, e.Idx)
			if e.Depth != 0 {
				return fmt.Sprintf("close callback %d ran while %d request handler invocation(s) were executing", e.Idx, e.Depth)
			}
		}
	}
	if len(seen) != r.ncb {
		return fmt.Sprintf("%d close callback invocations for %d registered callbacks (order %v)", len(seen), r.ncb, seen)
	}
	for i, idx := range seen {
		if idx != r.ncb-1-i {
			return fmt.Sprintf("close callbacks ran in order %v, expected reverse registration order", seen)
		}
	}
	return ""
}

// ------------------------------------------------------------------ instrumented server

type vcSrvOpts struct {
	Network      string // tcp | unix
	NCloseCb     int
	OnPrepare    func(rec *vcConnRec)
	OnConnect    func(ctx context.Context, rec *vcConnRec) // nil: not installed
	OnRequest    func(ctx context.Context, rec *vcConnRec) error
	OnDisconnect func(ctx context.Context, rec *vcConnRec)
	NoOnRequest  bool
	Extra        []Option
	// NoDefaultTimeouts: the scenario sets and judges timeouts itself
	NoDefaultTimeouts bool
}

type vcSrv struct {
	Opts     vcSrvOpts
	Ln       Listener
	Evl      EventLoop
	Addr     string
	Network  string
	ServeErr chan error
	Accepted chan *vcConnRec
	recs     sync.Map // connection id -> *vcConnRec
	nacc     int32
}

var vcSrvSeq uint64

type vcCtxKey struct{}

var vcTmpDir string
var vcSockSeq uint64

func vcTempDir() string {
	if vcTmpDir == "" {
		d, err := ioutil.TempDir("", "vfconn")
		if err != nil {
			panic(err)
		}
		vcTmpDir = d
	}
	return vcTmpDir
}

func vcStartServer(o vcSrvOpts) (*vcSrv, error) {
	s := &vcSrv{Opts: o, Network: o.Network, ServeErr: make(chan error, 1), Accepted: make(chan *vcConnRec, 1024)}
	addr := "127.0.0.1:0"
	if o.Network == "unix" {
		addr = filepath.Join(vcTempDir(), fmt.Sprintf("s%d.sock", atomic.AddUint64(&vcSockSeq, 1)))
	}
	ln, err := CreateListener(o.Network, addr)
	if err != nil {
		return nil, err
	}
	s.Ln = ln
	s.Addr = ln.Addr().String()
	opts := []Option{WithOnPrepare(func(c Connection) context.Context {
		rec := &vcConnRec{ID: vcConnID(c), Conn: c, done: make(chan struct{}), prepMark: vcTraceMark()}
		if fc, ok := c.(Conn); ok {
			rec.FD = fc.Fd()
		}
		rec.add(vcCbPrepareStart, 0)
		s.recs.Store(rec.ID, rec)
		rec.registerCloseCallbacks(c, o.NCloseCb)
		if o.OnPrepare != nil {
			o.OnPrepare(rec)
		}
		atomic.AddInt32(&s.nacc, 1)
		rec.add(vcCbPrepareEnd, 0)
		select {
		case s.Accepted <- rec:
		default:
		}
		return context.WithValue(context.Background(), vcCtxKey{}, rec)
	})}
	if o.OnConnect != nil {
		opts = append(opts, WithOnConnect(func(ctx context.Context, c Connection) context.Context {
			rec, _ := ctx.Value(vcCtxKey{}).(*vcConnRec)
			rec.add(vcCbConnectStart, 0)
			defer rec.add(vcCbConnectEnd, 0)
			o.OnConnect(ctx, rec)
			return ctx
		}))
	}
	if o.OnDisconnect != nil {
		opts = append(opts, WithOnDisconnect(func(ctx context.Context, c Connection) {
			rec, _ := ctx.Value(vcCtxKey{}).(*vcConnRec)
			rec.add(vcCbDisconnectStart, 0)
			defer rec.add(vcCbDisconnectEnd, 0)
			o.OnDisconnect(ctx, rec)
		}))
	}
	opts = append(opts, o.Extra...)
	// generous timeouts that never expire within a trial switch the timer paths on: every third
	// server gets read/write timeouts, every fourth an idle timeout
	switch n := atomic.AddUint64(&vcSrvSeq, 1); {
	case n%3 == 0 && !o.NoDefaultTimeouts:
		opts = append(opts, WithReadTimeout(40*time.Second), WithWriteTimeout(40*time.Second))
	case n%4 == 0 && !o.NoDefaultTimeouts:
		opts = append(opts, WithIdleTimeout(3*time.Minute))
	}
	var onReq OnRequest
	if !o.NoOnRequest {
		onReq = func(ctx context.Context, c Connection) error {
			rec, _ := ctx.Value(vcCtxKey{}).(*vcConnRec)
			d := atomic.AddInt32(&rec.depth, 1)
			for {
				m := atomic.LoadInt32(&rec.maxD)
				if d <= m || atomic.CompareAndSwapInt32(&rec.maxD, m, d) {
					break
				}
			}
			rec.add(vcCbRequestStart, 0)
			// the deferred decrement runs before netpoll's own deferred panic path
			defer func() {
				rec.add(vcCbRequestEnd, 0)
				atomic.AddInt32(&rec.depth, -1)
			}()
			if o.OnRequest != nil {
				return o.OnRequest(ctx, rec)
			}
			return nil
		}
	}
	evl, err := NewEventLoop(onReq, opts...)
	if err != nil {
		ln.Close()
		return nil, err
	}
	s.Evl = evl
	go func() { s.ServeErr <- evl.Serve(ln) }()
	// Serve installs the server asynchronously; a Shutdown before that is a no-op that would
	// leave the listener open (harness misuse, not a finding): wait until it is installed
	if vc13ServerOf(evl) == nil {
		return nil, fmt.Errorf("Serve did not start")
	}
	return s, nil
}

// Stop shuts the server down (bounded) and reports whether Shutdown returned nil.
func (s *vcSrv) Stop(d time.Duration) error {
	ctx, cancel := context.WithTimeout(context.Background(), d)
	defer cancel()
	err := s.Evl.Shutdown(ctx)
	if s.Network == "unix" {
		os.Remove(s.Addr)
	}
	return err
}

// nextAccepted returns the next accepted connection once its initialisation (OnPrepare AND the
// registration with the poller that follows it) has completed: a connection handed out by
// OnPrepare may not be used for I/O before that ("Reader() or Writer() cannot be used here").
func (s *vcSrv) nextAccepted(d time.Duration) *vcConnRec {
	select {
	case r := <-s.Accepted:
		if atomic.LoadInt32(&vcTraceOn) != 0 {
			vcWaitPoint(r.prepMark, vpAcceptAfterInit, r.ID, 3*time.Second)
		} else {
			time.Sleep(2 * time.Millisecond)
		}
		return r
	case <-time.After(d):
		return nil
	}
}

// ------------------------------------------------------------------ raw peers

// vcDialRaw connects a plain (std library) socket to the server: the hostile peer.
func vcDialRaw(s *vcSrv) (net.Conn, error) {
	return net.DialTimeout(s.Network, s.Addr, 5*time.Second)
}

// vcRST closes a std connection abortively (SO_LINGER 0 => RST on TCP).
func vcRST(c net.Conn) {
	if tc, ok := c.(*net.TCPConn); ok {
		tc.SetLinger(0)
	}
	c.Close()
}

func vcSetBuf(fd int, snd, rcv int) {
	if snd > 0 {
		syscall.SetsockoptInt(fd, syscall.SOL_SOCKET, syscall.SO_SNDBUF, snd)
	}
	if rcv > 0 {
		syscall.SetsockoptInt(fd, syscall.SOL_SOCKET, syscall.SO_RCVBUF, rcv)
	}
}

func vcRawFD(c net.Conn) int {
	sc, ok := c.(syscall.Conn)
	if !ok {
		return -1
	}
	rc, err := sc.SyscallConn()
	if err != nil {
		return -1
	}
	fd := -1
	rc.Control(func(f uintptr) { fd = int(f) })
	return fd
}

// ------------------------------------------------------------------ progress canaries (stuck-state witnesses)

// vcCanary measures logical progress elsewhere: how many tasks the runner executed and how
// many echo round trips a bystander connection completed since it was started. A waiter is
// declared stuck only when both advanced by the stated amount while it stayed parked.
type vcCanary struct {
	tasks int64
	stop  int32
}

// vcPollerDoneWithInput reports whether the poller that serves connection c has finished the
// batch in which it last published input for c (trace: a PollBatchEnd of that poller after the
// connection's last InputAckAfterBook). Until then the poller is still on its way to start or
// wake whoever consumes that input, and "nobody is handling it" is not a stuck state.
func vcPollerDoneWithInput(mark uint64, c *connection) bool {
	if c == nil || c.operator == nil {
		return false
	}
	pollID := vcObjID(c.operator.poll)
	connID := uintptr(unsafe.Pointer(c))
	var lastIn uint64
	done := false
	for _, e := range vcTraceSince(mark) {
		switch {
		case int(e.Point) == vpInputAckAfterBook && e.Obj == connID:
			lastIn, done = e.Seq, false
		case int(e.Point) == vpPollBatchEnd && e.Obj == pollID && lastIn != 0 && e.Seq > lastIn:
			done = true
		}
	}
	// no delivery event in the trace although bytes are buffered: the poller stands between publishing
	// the bytes and recording the event (or inside the recording) - it is certainly not done
	return lastIn != 0 && done
}

func vcIsErr(err, target error) bool { return err != nil && errors.Is(err, target) }

func vcGoroutineDump() string {
	buf := make([]byte, 1<<20)
	n := runtime.Stack(buf, true)
	return string(buf[:n])
}

// vcStacksContaining returns the goroutine stacks that mention substr.
func vcStacksContaining(substr string) []string {
	var out []string
	for _, g := range strings.Split(vcGoroutineDump(), "\n\n") {
		if strings.Contains(g, substr) {
			out = append(out, g)
		}
	}
	return out
}

// ------------------------------------------------------------------ the trial loop

type vcScenario func(t *vcTrial)

var vcScenarios = map[string]vcScenario{}

// vcDirected holds, per scenario, fixed-configuration trials (regressions of fixed findings,
// corner cases the random generator reaches rarely). They run first in the batch that starts
// at trial 0, with negative trial numbers.
var vcDirected = map[string][]vcScenario{}

func vcSortedKeys(m map[string]int) []string {
	ks := make([]string, 0, len(m))
	for k := range m {
		ks = append(ks, k)
	}
	sort.Strings(ks)
	return ks
}

// TestVerifConn runs trials VERIF_FROM..+VERIF_COUNT of scenario VERIF_SCEN.
func TestVerifConn(t *testing.T) {
	scen := vfEnvStr("VERIF_SCEN", "")
	fn := vcScenarios[scen]
	if fn == nil {
		t.Fatalf("unknown scenario %q", scen)
	}
	seed := uint64(vfEnvInt("VERIF_SEED", 1))
	from := vfEnvInt("VERIF_FROM", 0)
	count := vfEnvInt("VERIF_COUNT", 10)
	watchdog := time.Duration(vfEnvInt("VERIF_WATCHDOG_S", 60)) * time.Second
	if n := vfEnvInt("VERIF_LOOPS", 0); n > 0 {
		SetNumLoops(n)
	}
	if n := vfEnvInt("VERIF_LBCAP", 0); n > 0 {
		LinkBufferCap = n
	}
	if vfEnvInt("VERIF_LB_RANDOM", 0) == 1 {
		SetLoadBalance(Random)
	}
	logf, _ := ioutil.TempFile("", "vfnetpoll-log")
	if logf != nil {
		SetLoggerOutput(logf)
		defer os.Remove(logf.Name())
	}
	raceMode := vfEnvStr("VERIF_RACE_MODE", "")
	if raceMode == "" {
		vcInstallHooks()
	} else {
		vrInstall(raceMode, seed) // -race runs: no trace, no synchronising handler
	}
	Initialize()
	vfOpenOut() // before any trial lowers the descriptor limit

	sigs := map[string]int{}
	stats := map[string]int{}
	var samples []interface{}
	trials, nontrivial, inconcl := 0, 0, 0
	nextCase := from + count
	var inconclList []interface{}
	first := from
	ndir := len(vcDirected[scen])
	if from == 0 && vfEnvInt("VERIF_NO_DIRECTED", 0) == 0 {
		first = -ndir
	}
	if d := vfEnvInt("VERIF_DIRECTED_ONLY", 0); d != 0 {
		first, count, from = -ndir, 0, 0
	}
	for idx := first; idx < from+count; idx++ {
		ts := vfMix2(seed^vfMix(uint64(len(scen))*131+uint64(scen[len(scen)-1])), uint64(int64(idx)))
		tr := &vcTrial{Scen: scen, Idx: idx, Seed: ts, R: vfNewRng(ts)}
		fn := fn
		if idx < 0 {
			fn = vcDirected[scen][-idx-1]
			tr.P("directed", -idx-1)
		}
		vfProgress(vfSprintf("%s trial=%d seed=%d", scen, idx, ts))
		tr.Mark = vcTraceMark()
		done := make(chan struct{})
		var pan interface{}
		var panStack string
		go func() {
			defer close(done)
			defer func() {
				if r := recover(); r != nil {
					pan, panStack = r, vfStack()
				}
			}()
			fn(tr)
		}()
		timedOut := false
		select {
		case <-done:
		case <-time.After(watchdog):
			timedOut = true
		}
		vcSetPlan(nil)
		trials++
		if timedOut && tr.Violated() {
			// the oracle already refuted the property; the trial merely failed to wind down
			tr.mu.Lock()
			v := tr.viol
			tr.mu.Unlock()
			vfEmit(map[string]interface{}{"kind": "violation", "engine": "connmon", "scenario": scen, "case": idx, "case_seed": ts,
				"property": v.Prop, "oracle": v.Kind, "msg": v.Msg, "params": tr.Param, "note": "trial did not wind down after the violation (watchdog)"})
			nextCase = idx + 1
			break
		}
		if timedOut {
			dump := vcGoroutineDump()
			fmt.Fprintf(os.Stderr, "WATCHDOG trial %d of %s\n%s\n", idx, scen, dump)
			vfEmit(map[string]interface{}{"kind": "inconclusive", "engine": "connmon", "scenario": scen, "case": idx, "case_seed": ts,
				"why": "trial watchdog fired (no stuck-state witness)", "params": tr.Param})
			nextCase = idx + 1
			inconcl++
			break // state unknown: continue in a fresh process
		}
		if pan != nil {
			// a panic on the trial goroutine itself is harness code unless netpoll frames are on top
			site := vfPanicSite(panStack)
			if site != "" && !strings.Contains(site, "zz_verif_") && strings.Contains(site, "netpoll") && len(scen) == 3 {
				// raised inside netpoll's own code by a call the scenario made within the contract
				vfEmit(map[string]interface{}{"kind": "violation", "engine": "connmon", "scenario": scen, "case": idx, "case_seed": ts,
					"property": scen, "oracle": "panic", "msg": fmt.Sprintf("a call made by the scenario panicked inside netpoll: %v at %s", pan, site),
					"detail": map[string]interface{}{"stack": panStack}, "params": tr.Param})
				nextCase = idx + 1
				break
			}
			vfEmit(map[string]interface{}{"kind": "harness_panic", "engine": "connmon", "scenario": scen, "case": idx, "case_seed": ts,
				"panic": fmt.Sprint(pan), "site": site, "stack": panStack, "params": tr.Param})
			nextCase = idx + 1
			break
		}
		for k, v := range tr.Stats {
			stats[k] += v
		}
		if tr.inconclusive != "" {
			inconcl++
			if len(inconclList) < 5 {
				inconclList = append(inconclList, map[string]interface{}{"case": idx, "why": tr.inconclusive})
			}
		}
		if tr.Nontrivial {
			nontrivial++
			sigs[tr.Sig]++
			if len(samples) < 3 {
				samples = append(samples, map[string]interface{}{"case": idx, "case_seed": ts, "signature": tr.Sig, "params": tr.Param, "stats": tr.Stats})
			}
		}
		if tr.viol != nil {
			evs := vcTraceSince(tr.Mark)
			rec := map[string]interface{}{"kind": "violation", "engine": "connmon", "scenario": scen, "case": idx, "case_seed": ts,
				"property": tr.viol.Prop, "oracle": tr.viol.Kind, "msg": tr.viol.Msg, "detail": tr.viol.Detail,
				"params": tr.Param, "trace_tail": vcTraceDump(vcTraceEssential(evs, 600), 0, 600)}
			if tr.Plan != nil {
				rec["plan"] = map[string]interface{}{"mode": tr.Plan.Mode, "P": vcPointName(tr.Plan.P), "Q": vcPointName(tr.Plan.Q), "realised": tr.Plan.Realised(), "parked": tr.Plan.Parked(), "jitter_pm": tr.Plan.JitterPM}
			}
			vfEmit(rec)
			nextCase = idx + 1
			break // the process may hold leaked state now: continue in a fresh one
		}
	}
	hits := map[string]uint64{}
	if raceMode != "" {
		hits = vrHitsSnapshot()
	}
	for i := 1; i < vpCount && i < len(vcHits) && raceMode == ""; i++ {
		if h := atomic.LoadUint64(&vcHits[i]); h > 0 {
			hits[vcPointName(i)] = h
		}
	}
	vfEmit(map[string]interface{}{"kind": "stats", "engine": "connmon", "scenario": scen, "from": from, "count": count,
		"trials": trials, "nontrivial": nontrivial, "inconclusive": inconcl, "inconclusive_list": inconclList,
		"next_case": nextCase, "signatures": sigs, "stats": stats, "samples": samples, "hook_hits": hits})
}

func vcMaxInt(a, b int) int {
	if a > b {
		return a
	}
	return b
}

func vcMinInt(a, b int) int {
	if a < b {
		return a
	}
	return b
}

// vcTraceEssential keeps the last max events of a trial's trace after dropping the poller's
// per-batch bookkeeping (begin/end/dispatch-done/skip): a descriptor left registered makes a
// level-triggered poller spin, and thousands of such events would push everything that explains
// the violation out of the witness.
func vcTraceEssential(evs []vcEvent, max int) []vcEvent {
	out := make([]vcEvent, 0, len(evs))
	spin := 0
	for _, e := range evs {
		switch int(e.Point) {
		case vpPollBatchBegin, vpPollBatchEnd, vpPollDispatchDone, vpPollSkip:
			spin++
			continue
		}
		out = append(out, e)
	}
	if len(out) > max {
		out = out[len(out)-max:]
	}
	return out
}
