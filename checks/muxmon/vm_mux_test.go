// C17: ShardQueue executes every added writer once and flushes it (package mux).
package mux

import (
	"context"
	"encoding/binary"
	"fmt"
	"io"
	"io/ioutil"
	"net"
	"os"
	"runtime"
	"sync"
	"sync/atomic"
	"testing"
	"time"

	"github.com/cloudwego/netpoll"
	"github.com/cloudwego/netpoll/internal/runner"
)

// ------------------------------------------------------------------ hook handler (jitter / pause P until Q)

type vmPlan struct {
	Mode     int // 0 none, 1 jitter, 2 pause
	Seed     uint64
	JitterPM int
	MaxSleep time.Duration
	P, Q     int
	Timeout  time.Duration
	armed    int32
	qch      chan struct{}
	qonce    sync.Once
	realised int32
}

var (
	vmPlanPtr atomic.Value // *vmPlan
	vmHits    [32]uint64
)

func vmSetPlan(p *vmPlan) {
	if p != nil {
		p.armed = 1
		p.qch = make(chan struct{})
	}
	vmPlanPtr.Store(&p)
}

func vmGetPlan() *vmPlan {
	pp, _ := vmPlanPtr.Load().(**vmPlan)
	if pp == nil {
		return nil
	}
	return *pp
}

func vmHandler(id int, obj interface{}, arg int) {
	if id >= 0 && id < len(vmHits) {
		atomic.AddUint64(&vmHits[id], 1)
	}
	p := vmGetPlan()
	if p == nil {
		return
	}
	switch p.Mode {
	case 1:
		h := vfMix2(p.Seed^uint64(id)<<32, atomic.LoadUint64(&vmHits[id&31]))
		if int(h%1000) < p.JitterPM {
			if (h>>12)%4 < 2 {
				runtime.Gosched()
			} else {
				time.Sleep(time.Duration((h >> 20) % uint64(p.MaxSleep+1)))
			}
		}
	case 2:
		if id == p.Q && atomic.LoadInt32(&p.armed) == 2 {
			atomic.StoreInt32(&p.realised, 1)
			p.qonce.Do(func() { close(p.qch) })
		}
		if id == p.P && atomic.CompareAndSwapInt32(&p.armed, 1, 2) {
			select {
			case <-p.qch:
			case <-time.After(p.Timeout):
			}
			atomic.StoreInt32(&p.armed, 3)
		}
	}
}

// vmRaceJitter is the handler of the -race runs: no atomics, no locks (it must not add
// happens-before edges).
var (
	vmRaceHits [32]uint64
	vmRaceSeed uint64
)

//go:norace
func vmRaceJitter(id int) {
	i := id & 31
	vmRaceHits[i]++
	h := vfMix2(vmRaceSeed^uint64(i)<<32, vmRaceHits[i])
	if h%1000 < 200 {
		if (h>>12)%4 < 3 {
			runtime.Gosched()
		} else {
			time.Sleep(time.Duration((h>>20)%100) * time.Microsecond)
		}
	}
}

// ------------------------------------------------------------------ frames

// frame: id(4) len(4) payload(len) where payload = PRF(id)
func vmFrame(id uint32, n int) *netpoll.LinkBuffer {
	lb := netpoll.NewLinkBuffer(8 + n)
	b, _ := lb.Malloc(8 + n)
	binary.BigEndian.PutUint32(b[0:], id)
	binary.BigEndian.PutUint32(b[4:], uint32(n))
	vfFill(b[8:], uint64(id)*0x9e3779b97f4a7c15+1, 0)
	lb.Flush()
	return lb
}

type vmPeer struct {
	c     net.Conn
	mu    sync.Mutex
	seen  map[uint32]int
	bad   string
	total int32
	done  chan struct{}
}

func (p *vmPeer) run() {
	defer close(p.done)
	hdr := make([]byte, 8)
	for {
		if _, err := io.ReadFull(p.c, hdr); err != nil {
			return
		}
		id, n := binary.BigEndian.Uint32(hdr[0:]), int(binary.BigEndian.Uint32(hdr[4:]))
		if n > 1<<20 {
			p.mu.Lock()
			p.bad = fmt.Sprintf("frame header with absurd length %d (stream corrupted)", n)
			p.mu.Unlock()
			return
		}
		body := make([]byte, n)
		if _, err := io.ReadFull(p.c, body); err != nil {
			return
		}
		p.mu.Lock()
		if i := vfCheck(body, uint64(id)*0x9e3779b97f4a7c15+1, 0); i >= 0 && p.bad == "" {
			p.bad = fmt.Sprintf("frame %d: payload differs at byte %d", id, i)
		}
		p.seen[id]++
		p.mu.Unlock()
		atomic.AddInt32(&p.total, 1)
	}
}

// ------------------------------------------------------------------ the scenario

type vmCfg struct {
	Shards    int
	Adders    int
	PerAdder  int
	Close     string // none | after | during
	ConnClose bool   // the connection is closed mid-way: only "at most once" remains
	NilPct    int    // per cent of the getters that return (nil, true): nothing to append, but still "handled"
	Bulk      bool   // getters carry no data (isNil): hundreds of thousands of Adds per trial, only the invocation counts are judged
	Mode      int
	P, Q      int
}

type vmResult struct {
	viol        string
	kind        string
	inconcl     string
	sig         string
	nontrivial  bool
	stats       map[string]int
	realised    bool
	cfg         vmCfg
}

func vmRunnerProgress(k int, d time.Duration) bool {
	done := make(chan struct{}, k)
	for i := 0; i < k; i++ {
		runner.RunTask(context.Background(), func() { done <- struct{}{} })
	}
	dl := time.After(d)
	for i := 0; i < k; i++ {
		select {
		case <-done:
		case <-dl:
			return false
		}
	}
	return true
}

func vmTrial(r *vfRng, cfg vmCfg) (res vmResult) {
	res.cfg = cfg
	res.stats = map[string]int{}
	ln, err := net.Listen("tcp", "127.0.0.1:0")
	if err != nil {
		res.inconcl = "listen: " + err.Error()
		return
	}
	defer ln.Close()
	acc := make(chan net.Conn, 1)
	go func() {
		c, err := ln.Accept()
		if err == nil {
			acc <- c
		}
	}()
	conn, err := netpoll.DialConnection("tcp", ln.Addr().String(), 5*time.Second)
	if err != nil {
		res.inconcl = "dial: " + err.Error()
		return
	}
	defer conn.Close()
	var raw net.Conn
	select {
	case raw = <-acc:
	case <-time.After(5 * time.Second):
		res.inconcl = "accept timeout"
		return
	}
	defer raw.Close()
	peer := &vmPeer{c: raw, seen: map[uint32]int{}, done: make(chan struct{})}
	go peer.run()
	q := NewShardQueue(cfg.Shards, conn)
	var plan *vmPlan
	switch cfg.Mode {
	case 1:
		plan = &vmPlan{Mode: 1, Seed: r.next(), JitterPM: r.rng(50, 500), MaxSleep: time.Duration(r.rng(1, 200)) * time.Microsecond}
	case 2:
		plan = &vmPlan{Mode: 2, P: cfg.P, Q: cfg.Q, Timeout: time.Duration(r.rng(1, 10)) * time.Millisecond}
	}
	vmSetPlan(plan)
	defer vmSetPlan(nil)

	total := cfg.Adders * cfg.PerAdder
	counts := make([]int32, total)    // getter invocations
	nilIDs := make([]int32, total)    // 1: this getter returns (nil, true)
	addedAt := make([]int64, total)   // monotonic time at which Add returned (0: not yet)
	var closeCalled, closeReturned int64
	var wg sync.WaitGroup
	start := make(chan struct{})
	seeds := make([]uint64, cfg.Adders)
	for a := range seeds {
		seeds[a] = r.next()
	}
	for a := 0; a < cfg.Adders; a++ {
		wg.Add(1)
		go func(a int) {
			defer wg.Done()
			ar := vfNewRng(seeds[a])
			<-start
			for k := 0; k < cfg.PerAdder; k++ {
				id := a*cfg.PerAdder + k
				n := ar.rng(0, 300)
				if ar.chance(5) {
					n = ar.rng(4000, 9000)
				}
				isNil := !cfg.Bulk && ar.chance(cfg.NilPct)
				if isNil {
					atomic.StoreInt32(&nilIDs[id], 1)
				}
				g := func() (netpoll.Writer, bool) {
					atomic.AddInt32(&counts[id], 1)
					if cfg.Bulk || isNil {
						return nil, true
					}
					return vmFrame(uint32(id), n), false
				}
				q.Add(g)
				atomic.StoreInt64(&addedAt[id], vfNow())
				if cfg.Bulk {
					continue
				}
				if ar.chance(30) {
					runtime.Gosched()
				}
				if ar.chance(3) {
					time.Sleep(time.Duration(ar.intn(200)) * time.Microsecond)
				}
			}
		}(a)
	}
	closeDelay := time.Duration(r.intn(1500)) * time.Microsecond // r is not shared with goroutines
	connCloseDelay := time.Duration(r.intn(2000)) * time.Microsecond
	closeDone := make(chan struct{})
	go func() {
		defer close(closeDone)
		<-start
		switch cfg.Close {
		case "during":
			time.Sleep(closeDelay)
		case "after":
			wg.Wait()
		default:
			return
		}
		atomic.StoreInt64(&closeCalled, vfNow())
		q.Close()
		// ---- Close returns only after every getter added before it has been handled
		atomic.StoreInt64(&closeReturned, vfNow())
		cc := atomic.LoadInt64(&closeCalled)
		for id := range counts {
			at := atomic.LoadInt64(&addedAt[id])
			if at != 0 && at < cc && atomic.LoadInt32(&counts[id]) == 0 && conn.IsActive() {
				pending := 0
				for s := range q.getters {
					q.lock(int32(s))
					pending += len(q.getters[s])
					q.unlock(int32(s))
				}
				res.viol = fmt.Sprintf("Close returned although getter %d, whose Add had returned %dus before Close was called, has not been invoked (now: %d getters pending in shards, trigger=%d, runNum=%d, state=%d, invoked later: %v)", id, (cc-at)/1000, pending, atomic.LoadInt32(&q.trigger), atomic.LoadInt32(&q.runNum), atomic.LoadInt32(&q.state), func() bool { time.Sleep(20 * time.Millisecond); return atomic.LoadInt32(&counts[id]) > 0 }())
				res.kind = "close_early"
				return
			}
		}
	}()
	if cfg.ConnClose {
		go func() {
			<-start
			time.Sleep(connCloseDelay)
			conn.Close()
		}()
	}
	close(start)
	wg.Wait()
	<-closeDone
	if res.viol != "" {
		return
	}
	// adds after Close returned are ignored
	lateIDs := 0
	if cfg.Close != "none" {
		var late int32
		q.Add(func() (netpoll.Writer, bool) { atomic.AddInt32(&late, 1); return nil, true })
		time.Sleep(300 * time.Microsecond)
		if atomic.LoadInt32(&late) != 0 {
			res.viol, res.kind = "a getter added after Close had returned was invoked", "add_after_close"
			return
		}
		lateIDs = 1
	}
	// ---- which getters must have been executed? all whose Add returned while the queue was active
	must := func(id int) bool {
		if cfg.ConnClose {
			return false
		}
		at := atomic.LoadInt64(&addedAt[id])
		cc := atomic.LoadInt64(&closeCalled)
		return cc == 0 || (at != 0 && at < cc)
	}
	// bounded progress without any further Add
	if cfg.Bulk {
		// no frames travel: a getter counts as delivered when it was invoked
		for dl := time.Now().Add(8 * time.Second); time.Now().Before(dl); {
			missing := 0
			for id := range counts {
				if must(id) && atomic.LoadInt32(&counts[id]) == 0 {
					missing++
				}
			}
			if missing == 0 {
				break
			}
			time.Sleep(200 * time.Microsecond)
		}
		peer.mu.Lock()
		for id := range counts {
			if c := atomic.LoadInt32(&counts[id]); c > 0 {
				peer.seen[uint32(id)] = 1
			}
		}
		peer.mu.Unlock()
	}
	deadline := time.Now().Add(8 * time.Second)
	for time.Now().Before(deadline) {
		missing := 0
		peer.mu.Lock()
		for id := range counts {
			// a nil getter sends nothing: it is delivered once it has been invoked
			if atomic.LoadInt32(&nilIDs[id]) == 1 && atomic.LoadInt32(&counts[id]) > 0 {
				peer.seen[uint32(id)] = 1
			}
		}
		for id := range counts {
			if must(id) && peer.seen[uint32(id)] == 0 {
				missing++
			}
		}
		peer.mu.Unlock()
		if missing == 0 {
			break
		}
		time.Sleep(200 * time.Microsecond)
	}
	peer.mu.Lock()
	bad := peer.bad
	seen := make(map[uint32]int, len(peer.seen))
	for k, v := range peer.seen {
		seen[k] = v
	}
	peer.mu.Unlock()
	if bad != "" {
		res.viol, res.kind = bad, "frame_corrupted"
		return
	}
	for id := range counts {
		c := atomic.LoadInt32(&counts[id])
		if c > 1 {
			res.viol, res.kind = fmt.Sprintf("getter %d was invoked %d times", id, c), "getter_twice"
			return
		}
		if seen[uint32(id)] > 1 {
			res.viol, res.kind = fmt.Sprintf("frame %d arrived %d times", id, seen[uint32(id)]), "frame_twice"
			return
		}
	}
	for id := range counts {
		if !must(id) {
			continue
		}
		if seen[uint32(id)] == 0 {
			// stuck-state witness: work is pending, no worker is running, the runner makes progress
			pending := 0
			for s := range q.getters {
				q.lock(int32(s))
				pending += len(q.getters[s])
				q.unlock(int32(s))
			}
			trig, run := atomic.LoadInt32(&q.trigger), atomic.LoadInt32(&q.runNum)
			if !conn.IsActive() {
				res.inconcl = "connection closed unexpectedly"
				return
			}
			if vmRunnerProgress(5, 5*time.Second) {
				time.Sleep(50 * time.Millisecond)
				peer.mu.Lock()
				still := peer.seen[uint32(id)] == 0
				peer.mu.Unlock()
				if still {
					res.viol = fmt.Sprintf("getter %d (invoked %d times) never reached the peer although the connection is alive and no further Add is coming: %d getters pending in shards, trigger=%d, runNum=%d; runner canary tasks completed meanwhile", id, atomic.LoadInt32(&counts[id]), pending, trig, run)
					res.kind = "stranded_getter"
					return
				}
			} else {
				res.inconcl = "frames missing and the runner canary made no progress"
				return
			}
		}
		if atomic.LoadInt32(&counts[id]) != 1 {
			res.viol, res.kind = fmt.Sprintf("getter %d reached the peer but was invoked %d times", id, atomic.LoadInt32(&counts[id])), "getter_count"
			return
		}
	}
	_ = lateIDs
	res.stats["getters"] = total
	res.stats["frames_verified"] = int(atomic.LoadInt32(&peer.total))
	if plan != nil && plan.Mode == 2 {
		res.stats["pause_pairs_attempted"] = 1
		if atomic.LoadInt32(&plan.realised) == 1 {
			res.stats["pause_pairs_realised"] = 1
			res.realised = true
		}
	}
	res.nontrivial = cfg.Adders >= 2
	res.sig = fmt.Sprintf("shards=%d|adders=%d|close=%s|connclose=%v|mode=%d|real=%v|bulk=%v|nil=%v", vmClass(cfg.Shards), vmClass(cfg.Adders), cfg.Close, cfg.ConnClose, cfg.Mode, res.realised, cfg.Bulk, cfg.NilPct > 0)
	return
}

func vmClass(n int) int {
	switch {
	case n <= 1:
		return 1
	case n <= 4:
		return 4
	case n <= 16:
		return 16
	}
	return 64
}

var vmP = []int{vpWorkerAfterRunNum, vpWorkerAfterFlush, vpWorkerAfterSwap, vpWorkerAfterDeal, vpTriggeringAfterList, vpTriggeringAfterCount, vpAddAfterAppend, vpForeachEnter, vpWorkerStart, vpClosePoll}
var vmQ = []int{vpAddAfterAppend, vpTriggeringAfterList, vpTriggeringAfterCount, vpForeachEnter, vpWorkerAfterSwap, vpWorkerAfterRunNum, vpWorkerExit, vpClosePoll}

func vmGenCfg(r *vfRng) vmCfg {
	cfg := vmCfg{Shards: []int{1, 2, 3, 8, 32}[r.intn(5)], Adders: []int{1, 2, 4, 16, 64}[r.intn(5)]}
	cfg.PerAdder = r.rng(1, 40)
	if cfg.Adders*cfg.PerAdder > 1500 {
		cfg.PerAdder = 1500 / cfg.Adders
	}
	if r.chance(8) {
		cfg.Bulk = true
		cfg.Shards = []int{2, 8, 32}[r.intn(3)]
		cfg.Adders = []int{4, 16, 32}[r.intn(3)]
		cfg.PerAdder = r.rng(2000, 12000)
	}
	cfg.Close = []string{"none", "none", "after", "during"}[r.intn(4)]
	cfg.ConnClose = r.chance(10)
	if !cfg.Bulk {
		cfg.NilPct = []int{0, 0, 30, 70}[r.intn(4)]
	}
	switch r.intn(3) {
	case 0:
		cfg.Mode = 1
	case 1:
		cfg.Mode = 2
		cfg.P = vmP[r.intn(len(vmP))]
		cfg.Q = vmQ[r.intn(len(vmQ))]
	}
	return cfg
}

// TestVerifMux is the child-process entry point of the muxmon engine.
func TestVerifMux(t *testing.T) {
	seed := uint64(vfEnvInt("VERIF_SEED", 1))
	from := vfEnvInt("VERIF_FROM", 0)
	count := vfEnvInt("VERIF_COUNT", 10)
	switch vfEnvStr("VERIF_RACE_MODE", "") {
	case "":
		verifPointHandler.Store(func(id int, obj interface{}, arg int) { vmHandler(id, obj, arg) })
	case "jitter":
		vmRaceSeed = seed
		verifPointHandler.Store(func(id int, obj interface{}, arg int) { vmRaceJitter(id) })
	}
	logf, _ := ioutil.TempFile("", "vfnetpoll-log")
	if logf != nil {
		netpoll.SetLoggerOutput(logf)
		defer os.Remove(logf.Name())
	}
	if n := vfEnvInt("VERIF_LOOPS", 0); n > 0 {
		netpoll.SetNumLoops(n)
	}
	vfOpenOut()
	sigs := map[string]int{}
	stats := map[string]int{}
	var samples []interface{}
	trials, nontrivial, inconcl := 0, 0, 0
	nextCase := from + count
	directed := []vmCfg{
		{Shards: 1, Adders: 16, PerAdder: 30, Close: "none", Mode: 2, P: vpWorkerAfterRunNum, Q: vpTriggeringAfterCount},
		{Shards: 2, Adders: 8, PerAdder: 20, Close: "during", Mode: 2, P: vpWorkerAfterFlush, Q: vpAddAfterAppend},
		{Shards: 32, Adders: 64, PerAdder: 20, Close: "after", Mode: 1},
		{Shards: 8, Adders: 16, PerAdder: 20000, Close: "none", Bulk: true},
		{Shards: 2, Adders: 16, PerAdder: 10000, Close: "after", Bulk: true},
		{Shards: 3, Adders: 2, PerAdder: 3, Close: "none", NilPct: 60},
		{Shards: 2, Adders: 2, PerAdder: 2, Close: "none", NilPct: 50, Mode: 1},
		{Shards: 8, Adders: 4, PerAdder: 4, Close: "none", NilPct: 70},
	}
	first := from
	if from == 0 && vfEnvInt("VERIF_NO_DIRECTED", 0) == 0 {
		first = -len(directed)
	}
	for idx := first; idx < from+count; idx++ {
		ts := vfMix2(seed^0xc17, uint64(int64(idx)))
		r := vfNewRng(ts)
		var cfg vmCfg
		if idx < 0 {
			cfg = directed[-idx-1]
		} else {
			cfg = vmGenCfg(r)
		}
		if vfEnvStr("VERIF_RACE_MODE", "") != "" {
			cfg.Mode = 0
		}
		vfProgress(vfSprintf("C17 trial=%d seed=%d", idx, ts))
		done := make(chan vmResult, 1)
		go func() { done <- vmTrial(r, cfg) }()
		var res vmResult
		select {
		case res = <-done:
		case <-time.After(90 * time.Second):
			buf := make([]byte, 1<<20)
			n := runtime.Stack(buf, true)
			fmt.Fprintf(os.Stderr, "WATCHDOG C17 trial %d\n%s\n", idx, buf[:n])
			vfEmit(map[string]interface{}{"kind": "inconclusive", "engine": "muxmon", "scenario": "C17", "case": idx, "why": "trial watchdog fired", "params": fmt.Sprintf("%+v", cfg)})
			nextCase = idx + 1
			inconcl++
			idx = from + count // leave the loop
			continue
		}
		trials++
		for k, v := range res.stats {
			stats[k] += v
		}
		if res.inconcl != "" {
			inconcl++
		}
		if res.nontrivial {
			nontrivial++
			sigs[res.sig]++
			if len(samples) < 3 {
				samples = append(samples, map[string]interface{}{"case": idx, "case_seed": ts, "params": fmt.Sprintf("%+v", cfg), "signature": res.sig, "stats": res.stats})
			}
		}
		if res.viol != "" {
			vfEmit(map[string]interface{}{"kind": "violation", "engine": "muxmon", "scenario": "C17", "case": idx, "case_seed": ts,
				"property": "C17", "oracle": res.kind, "msg": res.viol, "params": map[string]interface{}{"cfg": fmt.Sprintf("%+v", cfg)}})
			nextCase = idx + 1
			break
		}
	}
	hits := map[string]uint64{}
	for i := 1; i < vpCount; i++ {
		if h := atomic.LoadUint64(&vmHits[i]); h > 0 {
			hits[verifPointNames[i]] = h
		}
	}
	vfEmit(map[string]interface{}{"kind": "stats", "engine": "muxmon", "scenario": "C17", "from": from, "count": count,
		"trials": trials, "nontrivial": nontrivial, "inconclusive": inconcl, "next_case": nextCase,
		"signatures": sigs, "stats": stats, "samples": samples, "hook_hits": hits})
}
