#!/bin/bash
# multi-seed sweep of every quick check: prints one line per (check, seed) with the exit code
cd "$(dirname "$0")/.."
for s in ${SEEDS:-2 3 4}; do
  for p in ${PROPS:-C01 C02 C03 C04 C05 C06 C07 C08 C09 C10 C11 C12 C13 C14 C15 C16 C17 C18 C19}; do
    t0=$(date +%s)
    out=$(VERIF_SEED=$s python3 bin/vcheck.py $p --tier ${TIER:-quick} 2>&1); rc=$?
    echo "seed=$s $p rc=$rc $(( $(date +%s) - t0 ))s $(echo "$out" | grep -c '^VIOLATION') violations; $(echo "$out" | grep '^INCONCLUSIVE' | head -1)"
    if [ $rc -ne 0 ]; then echo "$out" | grep -v '^    ' | tail -8 | sed 's/^/      /'; fi
  done
done
