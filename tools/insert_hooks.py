#!/usr/bin/env python3
"""One-off helper that inserted the add-only `verif` hook call sites into /repo
(kept for the record; the result is committed in /repo)."""
import re, sys, os
REPO = sys.argv[1] if len(sys.argv) > 1 else "/repo"

points = []  # (name)
def P(name):
    if name not in points:
        points.append(name)
    return name

edits = {}
def ins(file, anchor, line, where="before", nth=1):
    edits.setdefault(file, []).append((anchor, line, where, nth))

def call(name, obj="c", arg="0"):
    P(name)
    return "verifPoint(%s, %s, %s)" % (name, obj, arg)

# ---------------------------------------------------------------- connection_onevent.go
F = "connection_onevent.go"
ins(F, "\t\t// calling prepare first and then register.", "\t\t" + call("vpOnPrepareEnter"))
ins(F, "\t// prepare may close the connection.\n", "\t" + call("vpOnPrepareBeforeRegister"))
ins(F, "\tonDisconnect, _ := c.onDisconnectCallback.Load().(OnDisconnect)\n\tif onDisconnect == nil {\n\t\treturn\n\t}\n\tonConnect, _ :=", "\t" + call("vpOnDisconnectEnter"))
ins(F, "\t\tif c.changeState(connStateConnected, connStateDisconnected) {\n\t\t\tonDisconnect(c.ctx, c)\n\t\t}\n\t\tc.unlock(connecting)\n\t\treturn", "\t\t" + call("vpOnDisconnectLocked"))
ins(F, "\t// OnConnect is not finished yet, return and let onConnect helps to call onDisconnect", "\t" + call("vpOnDisconnectDeferred"), "after")
ins(F, "\t\t// let onConnect to call onRequest\n", "\t\t" + call("vpOnRequestDeferred"), "after")
ins(F, "\tprocessed := c.onProcess(nil, onRequest)", "\t" + call("vpOnRequestEnter"))
ins(F, "\t\t\tif !panicked {\n\t\t\t\treturn\n\t\t\t}\n", "\t\t\t" + call("vpPanicDeferEnter"), "after")
ins(F, "\t\t\t// cannot use recover() here, since we don't want to break the panic stack\n\t\t\tc.unlock(processing)\n", "\t\t\t" + call("vpPanicDeferAfterUnlock"), "after")
ins(F, "\t\t// trigger onConnect first\n", "\t\t" + call("vpTaskStart"))
ins(F, "\t\t\tc.ctx = onConnect(c.ctx, c)\n", "\t\t\t" + call("vpAfterOnConnect"), "after")
ins(F, "\t\t\tc.unlock(connecting)\n\t\t}\n\tSTART:", "\t\t\t" + call("vpOnConnectBeforeUnlock"))
ins(F, "\t\t\tc.unlock(connecting)\n\t\t}\n\tSTART:", None, "special_after_unlock_connecting")
ins(F, "\t\t// The `onRequest` must be executed at least once if conn have any readable data,", "\t\t" + call("vpProcessStart"))
ins(F, "\t\t\t//  if closed by user when processing, it \"may\" needs detach", "\t\t\t" + call("vpProcessBeforeCloseCb", "c", "int(closedBy)"))
ins(F, "\t\tc.unlock(processing)\n\t\t// Note: Poller's closeCallback call will try to get processing lock failed", "\t\t" + call("vpProcessBeforeUnlock"))
ins(F, "\t\tc.unlock(processing)\n\t\t// Note: Poller's closeCallback call will try to get processing lock failed", None, "special_after_unlock_processing")
ins(F, "\t\t// double check is processable\n", "\t\t" + call("vpProcessBetweenChecks"))
ins(F, "\t\t// task exits\n", "\t\t" + call("vpProcessExit"), "after")
ins(F, "func (c *connection) closeCallback(needLock, needDetach bool) (err error) {\n", "\t" + call("vpCloseCbEnter", "c", "verifB2I(needLock)<<1|verifB2I(needDetach)"), "after")
ins(F, "\tif needLock && !c.lock(processing) {\n", "\t\t" + call("vpCloseCbLockFail"), "after")
ins(F, "\tif needDetach && c.operator.poll != nil { // If Close is called during OnPrepare", "\t" + call("vpCloseCbLocked"))
ins(F, "\tlatest := c.closeCallbacks.Load()\n\tif latest == nil {\n\t\treturn nil\n\t}\n", "\t" + call("vpCloseCbBeforeRun"), "after")
ins(F, "\t\tcallback.fn(c)\n\t}\n", "\t" + call("vpCloseCbDone"), "after")

# ---------------------------------------------------------------- connection_reactor.go
F = "connection_reactor.go"
ins(F, "func (c *connection) onHup(p Poll) error {\n", "\t" + call("vpOnHupEnter"), "after")
ins(F, "\tc.triggerRead(Exception(ErrEOF, \"peer close\"))", "\t" + call("vpOnHupAfterCloseBy"))
ins(F, "\t// call Disconnect callback first\n", "\t" + call("vpOnHupAfterTrigger"))
ins(F, "\tc.onDisconnect()\n", "\t" + call("vpOnHupAfterDisconnect"), "after")
ins(F, "\t// user code close the connection\n", "\t" + call("vpOnCloseEnter"))
ins(F, "\t\tc.triggerRead(Exception(ErrConnClosed, \"self close\"))", "\t\t" + call("vpOnCloseWon"))
ins(F, "\t// closed by poller\n\t// still need to change closing status", "\t" + call("vpOnCloseLost"))
ins(F, "func (c *connection) closeBuffer() {\n", "\t" + call("vpCloseBuffer"), "after")
ins(F, "\tlength, _ := c.inputBuffer.bookAck(n)\n", "\t" + call("vpInputAckAfterBook", "c", "n"), "after")
ins(F, "\tif needTrigger && length >= int(atomic.LoadInt64(&c.waitReadSize)) {\n", "\t\t" + call("vpInputAckBeforeTrigger", "c", "length"), "after")
ins(F, "func (c *connection) outputs(vs [][]byte) (rs [][]byte, _ bool) {\n", "\t" + call("vpOutputs"), "after")
ins(F, "func (c *connection) outputAck(n int) (err error) {\n", "\t" + call("vpOutputAck", "c", "n"), "after")
ins(F, "\tc.operator.Control(PollRW2R)\n\tc.triggerWrite(nil)", "\t" + call("vpRw2rBeforeControl"))
ins(F, "\tc.triggerWrite(nil)\n}", "\t" + call("vpRw2rBeforeTrigger"))

# ---------------------------------------------------------------- connection_impl.go
F = "connection_impl.go"
ins(F, "\tif c.inputBuffer.Len() == 0 && c.operator.do() {\n", "\t\t" + call("vpReleaseTokenTaken"), "after")
ins(F, "\t\tc.operator.done()\n\t}\n\treturn c.inputBuffer.Release()", "\t\t" + call("vpReleaseBeforeDone"))
ins(F, "\t\tc.stop(flushing)\n", "\t\t" + call("vpFinalizerEnter"))
ins(F, "\t\tc.operator.Free()\n\t\tif err = c.netFD.Close(); err != nil {", "\t\t" + call("vpFinalizerAfterStop"))
ins(F, "\t\tif err = c.netFD.Close(); err != nil {", "\t\t" + call("vpFinalizerAfterFree"))
ins(F, "\t\tc.closeBuffer()\n\t\treturn nil\n\t})", "\t\t" + call("vpFinalizerAfterClose"))
ins(F, "\tdefer atomic.StoreInt64(&c.waitReadSize, 0)\n", "\t" + call("vpWaitReadPublished", "c", "n"), "after")
ins(F, "\t\t\terr = <-c.readTrigger\n\t\t\tif err != nil {\n\t\t\t\treturn err\n\t\t\t}\n\t\t}\n\t}\n\treturn nil\n}\n\n// waitReadWithTimeout", None, "special_waitread_block")
ins(F, "\t\t\tselect {\n\t\t\tcase <-c.readTimer.C:\n", "\t\t\t" + call("vpWaitReadTOBeforeSelect", "c", "n"), "before")
ins(F, "\t\t\tcase <-c.readTimer.C:\n", "\t\t\t\t" + call("vpWaitReadTOTimer", "c", "n"), "after")
ins(F, "\t\t\tcase err = <-c.readTrigger:\n", "\t\t\t\t" + call("vpWaitReadTOTrigger", "c", "n"), "after")
ins(F, "RET:\n", "\t" + call("vpWaitReadTORet", "c", "n"), "after")
ins(F, "\tn, err := sendmsg(c.fd, bs, c.outputBarrier.ivs, false)\n", "\t" + call("vpFlushAfterSend", "c", "n"), "after")
ins(F, "\terr = c.operator.Control(PollR2RW)\n", "\t" + call("vpFlushBeforeR2RW"))
ins(F, "\terr = c.operator.Control(PollR2RW)\n", "\t" + call("vpFlushAfterR2RW"), "after")
ins(F, "\tif timeout == 0 {\n\t\treturn <-c.writeTrigger\n", None, "special_waitflush_block")
ins(F, "\tselect {\n\tcase err = <-c.writeTrigger:\n\t\tif !c.writeTimer.Stop() { // clean timer", "\t" + call("vpWaitFlushBeforeSelect"))
ins(F, "\tcase err = <-c.writeTrigger:\n\t\tif !c.writeTimer.Stop() { // clean timer", "\t\t" + call("vpWaitFlushTrigger"), "after_firstline")
ins(F, "\tcase <-c.writeTimer.C:\n\t\tselect {\n\t\t// try fetch writeTrigger if both cases fires", "\t\t" + call("vpWaitFlushTimer"), "after_firstline")

# ---------------------------------------------------------------- fd_operator_cache.go
F = "fd_operator_cache.go"
ins(F, "\tunlock(&c.locked)\n\treturn op\n}", "\t" + call("vpOpAlloc", "op", "int(op.index)"))
ins(F, "\top.unused()\n\top.reset()\n", "\t" + call("vpOpFreeable", "op", "int(op.index)"), "after")
ins(F, "\t\top := c.cache[idx]\n", "\t\t" + call("vpOpFreeSplice", "op", "int(idx)"), "after")

# ---------------------------------------------------------------- poll_default_linux.go
F = "poll_default_linux.go"
ins(F, "\t\tmsec = 0\n\t\tif p.Handler(p.events[:n]) {", "\t\t" + call("vpPollBatchBegin", "p", "n"))
ins(F, "\t\t// we can make sure that there is no op remaining if Handler finished\n", "\t\t" + call("vpPollBatchEnd", "p", "n"))
ins(F, "\t\tif operator == nil || !operator.do() {\n", "\t\t\t" + call("vpPollSkip", "operator", "int(events[i].events)"), "after")
ins(F, "\t\tvar totalRead int\n\t\tevt := events[i].events\n", "\t\t" + call("vpPollEvent", "operator", "int(evt)"), "after")
ins(F, "\t\t\t// must clean trigger first\n", "\t\t\t" + call("vpPollWake", "p", "0"))
ins(F, "\t\t\tif p.buf[0] > 0 {\n", "\t\t\t\t" + call("vpPollExit", "p", "0"), "after")
ins(F, "\tfd := operator.FD\n\tvar op int\n", "\t" + call("vpPollControl", "operator", "int(event)"))
ins(F, "\t// hup conns together to avoid blocking the poll.\n", "\t" + call("vpPollDispatchDone", "p", "len(events)"))

# ---------------------------------------------------------------- poll_default.go
F = "poll_default.go"
ins(F, "\tp.hups = append(p.hups, operator.OnHup)\n", "\t" + call("vpAppendHup", "operator", "operator.FD"))
ins(F, "\t\tfor i := range onhups {\n", "\t\t" + call("vpHupsRun", "p", "len(onhups)"))

# ---------------------------------------------------------------- netpoll_server.go
F = "netpoll_server.go"
ins(F, "\tnconn.init(conn, s.opts)\n", "\t" + call("vpAcceptAfterInit", "nconn", "conn.Fd()"), "after")
ins(F, "\ts.connections.Store(fd, nconn)\n", "\t" + call("vpAcceptBeforeStore", "nconn", "fd"))
ins(F, "\ts.connections.Store(fd, nconn)\n", "\t" + call("vpAcceptAfterStore", "nconn", "fd"), "after")
ins(F, "\t\t\tif !ok || conn.isIdle() {\n", "\t\t\t\t" + call("vpServerCloseIdle", "value", "0"), "after")
ins(F, "\t\tcerr := s.operator.Control(PollDetach)\n", "\t\t" + call("vpEmfileDetach", "s", "0"))
ins(F, "\t\t\t\t\t\t// recovery accept poll loop\n", "\t\t\t\t\t\t" + call("vpEmfileReregister", "s", "0"))
ins(F, "\t\t\t\tconn, err := s.ln.Accept()\n\t\t\t\tif err == nil {\n\t\t\t\t\tif conn == nil {", "\t\t\t\t" + call("vpEmfileRetry", "s", "retryTimeIndex"))

# ---------------------------------------------------------------- net_polldesc.go
F = "net_polldesc.go"
ins(F, "\tselect {\n\tcase <-pd.writeTrigger: // triggered by poller\n", "\t" + call("vpDialBeforeWait", "pd.operator", "0"))
ins(F, "\t\t// deregister from poller, upper caller function will close fd\n", "\t\t" + call("vpDialCtxDone", "pd.operator", "0"))
ins(F, "func (pd *pollDesc) onwrite(p Poll) error {\n", "\t" + call("vpDialOnWrite", "pd.operator", "0"), "after")
ins(F, "func (pd *pollDesc) onhup(p Poll) error {\n", "\t" + call("vpDialOnHup", "pd.operator", "0"), "after")
F = "net_netfd.go"
ins(F, "\t\t// free operator to avoid leak\n", "\t\t" + call("vpDialBeforeFree", "c.pd.operator", "c.fd"))

# ---------------------------------------------------------------- poll_manager.go
F = "poll_manager.go"
ins(F, "\t// adjust polls\n\t// m.Run() will finish very quickly", "\t" + call("vpPickSlow", "m", "0"))
ins(F, "\t//nolint:staticcheck // SA9003: empty branch\n", "\t" + call("vpPickRunDone", "m", "0"))
ins(F, "\t\t\tpolls[idx] = poll\n\t\t\tgo poll.Wait()", "\t\t\t" + call("vpPollOpened", "poll", "idx"))
ins(F, "\t\t\t// close redundant polls\n", "\t\t\t" + call("vpPollClosing", "m.polls[idx]", "idx"))

# ---------------------------------------------------------------- descriptor audit (verifFD)
# kinds: >0 adopt, <0 about to close
FD = {"vfdConn": 1, "vfdListener": 2, "vfdListenerFile": 3, "vfdEpoll": 4, "vfdEventfd": 5, "vfdDialSocket": 6}
F = "net_netfd_conn.go"
ins(F, "\t\terr = syscall.Close(c.fd)\n\t\tif err != nil {\n\t\t\tlogger.Printf(\"NETPOLL: netFD[%d] close error", "\t\tverifFD(-vfdConn, c, c.fd)")
F = "net_listener.go"
ins(F, "\tnfd := &netFD{}\n\tnfd.fd = fd\n", "\tverifFD(vfdConn, nfd, fd)", "after")
ins(F, "\tif ln.fd != 0 {\n\t\tsyscall.Close(ln.fd)", "\t\tverifFD(-vfdListener, ln, ln.fd)", "after_firstline")
ins(F, "\tif ln.file != nil {\n\t\tln.file.Close()", "\t\tverifFD(-vfdListenerFile, ln, ln.fd)", "after_firstline")
ins(F, "\tln.fd = int(ln.file.Fd())\n", "\tverifFD(vfdListener, ln, ln.fd)", "after")
F = "net_sock.go"
ins(F, "\terr = setDefaultSockopts(fd, family, sotype, ipv6only)\n\tif err != nil {\n\t\tsyscall.Close(fd)", "\t\tverifFD(-vfdDialSocket, nil, fd)", "before_lastline")
ins(F, "\tnetfd = newNetFD(fd, family, sotype, net)\n", "\tverifFD(vfdConn, netfd, fd)", "after")
F = "sys_exec.go"
ins(F, "\tif err = syscall.SetNonblock(s, true); err != nil {\n\t\tsyscall.Close(s)", "\t\tverifFD(-vfdDialSocket, nil, s)", "before_lastline")
ins(F, "\tif err = syscall.SetNonblock(s, true); err != nil {\n", "\tverifFD(vfdDialSocket, nil, s)", "before")
F = "poll_default_linux.go"
ins(F, "\tpoll.fd = p\n", "\tverifFD(vfdEpoll, poll, p)", "after")
ins(F, "\tif e0 != 0 {\n\t\t_ = syscall.Close(poll.fd)", "\t\tverifFD(-vfdEpoll, poll, poll.fd)", "after_firstline")
ins(F, "\tpoll.wop = &FDOperator{FD: int(r0)}\n", "\tverifFD(vfdEventfd, poll, int(r0))", "after")
ins(F, "\tif err = poll.Control(poll.wop, PollReadable); err != nil {\n\t\t_ = syscall.Close(poll.wop.FD)", "\t\tverifFD(-vfdEventfd, poll, poll.wop.FD)\n\t\tverifFD(-vfdEpoll, poll, poll.fd)", "after_firstline")
ins(F, "\t\t\t\tsyscall.Close(p.wop.FD)\n\t\t\t\tsyscall.Close(p.fd)", "\t\t\t\tverifFD(-vfdEventfd, p, p.wop.FD)\n\t\t\t\tverifFD(-vfdEpoll, p, p.fd)")
F = "net_dialer.go"
ins(F, "\tconn := new(connection)\n\terr := conn.init(&netFD{fd: fd}, nil)", "\tverifFD(vfdConn, nil, fd)")

def apply_file(path, eds):
    s = open(path).read()
    for anchor, line, where, nth in eds:
        cnt = s.count(anchor)
        if cnt != 1:
            raise SystemExit("%s: anchor occurs %d times: %r" % (path, cnt, anchor[:70]))
        i = s.index(anchor)
        if where == "before":
            s = s[:i] + line + "\n" + s[i:]
        elif where == "after":
            j = i + len(anchor)
            if not anchor.endswith("\n"):
                j = s.index("\n", j) + 1
            s = s[:j] + line + "\n" + s[j:]
        elif where == "after_firstline":
            j = s.index("\n", i) + 1
            s = s[:j] + line + "\n" + s[j:]
        elif where == "before_lastline":
            j = i + anchor.rindex("\n") + 1
            s = s[:j] + line + "\n" + s[j:]
        elif where == "special_after_unlock_connecting":
            j = i + len("\t\t\tc.unlock(connecting)\n")
            s = s[:j] + "\t\t\t" + call("vpOnConnectAfterUnlock") + "\n" + s[j:]
        elif where == "special_after_unlock_processing":
            j = i + len("\t\tc.unlock(processing)\n")
            s = s[:j] + "\t\t" + call("vpProcessAfterUnlock") + "\n" + s[j:]
        elif where == "special_waitread_block":
            k = "\t\t\terr = <-c.readTrigger\n"
            j = i
            s = s[:j] + "\t\t\t" + call("vpWaitReadBeforeBlock", "c", "n") + "\n" + s[j:j+len(k)] + "\t\t\t" + call("vpWaitReadWoke", "c", "n") + "\n" + s[j+len(k):]
        elif where == "special_waitflush_block":
            k = "\tif timeout == 0 {\n"
            j = i + len(k)
            s = s[:j] + "\t\t" + call("vpWaitFlushBeforeBlock") + "\n" + s[j:]
        else:
            raise SystemExit("bad where " + where)
    open(path, "w").write(s)

for f, eds in edits.items():
    apply_file(os.path.join(REPO, f), eds)

# constants
out = ["// Copyright 2025 CloudWeGo Authors",
"//",
"// Licensed under the Apache License, Version 2.0 (the \"License\");",
"// you may not use this file except in compliance with the License.",
"// You may obtain a copy of the License at",
"//",
"//    http://www.apache.org/licenses/LICENSE-2.0",
"//",
"// Unless required by applicable law or agreed to in writing, software",
"// distributed under the License is distributed on an \"AS IS\" BASIS,",
"// WITHOUT WARRANTIES OR CONDITIONS OF ANY KIND, either express or implied.",
"// See the License for the specific language governing permissions and",
"// limitations under the License.",
"",
"package netpoll",
"",
"// Names of the verification hook points (see verif_hooks_on.go / verif_hooks_off.go).",
"// The points only exist to let an external monitor observe or delay the code between",
"// two steps of a hand-off protocol; without the `verif` build tag they compile to nothing.",
"const (",
"\tvpNone = iota"]
for p in points:
    out.append("\t" + p)
out += ["\tvpCount", ")", "", "// descriptor kinds of verifFD (positive: adopted, negative: about to be closed)", "const ("]
for k, v in FD.items():
    out.append("\t%s = %d" % (k, v))
out += [")", "", "// verifPointNames maps a point id to its name (used in traces).", "var verifPointNames = [...]string{", "\tvpNone: \"none\","]
for p in points:
    out.append("\t%s: \"%s\"," % (p, p[2:]))
out += ["}", "", "func verifB2I(b bool) int {", "\tif b {", "\t\treturn 1", "\t}", "\treturn 0", "}", ""]
open(os.path.join(REPO, "verif_points.go"), "w").write("\n".join(out))
print("inserted", sum(len(e) for e in edits.values()), "call sites,", len(points), "points")
