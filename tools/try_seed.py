#!/usr/bin/env python3
"""Evaluate one seeded breaking change: confirm the author's demonstration (fails with the
patch, passes without), then point the registered check(s) at the patched scratch tree.

  tools/try_seed.py <seed_dir> [--props C05,C09] [--tier quick] [--seeds 1,2]

<seed_dir> holds patch.diff, demo_test.go, meta.json. Uses a scratch worktree under /tmp that
is removed afterwards. Prints a JSON summary and appends it to <seed_dir>/eval.json."""
import argparse, json, os, shutil, subprocess, sys, time
ENV = dict(os.environ, GOFLAGS="-mod=mod", GOPROXY="off", GOSUMDB="off", GOTOOLCHAIN="local")

def sh(cmd, cwd=None, timeout=1800, env=None):
    p = subprocess.run(cmd, shell=True, cwd=cwd, env=env or ENV, stdout=subprocess.PIPE, stderr=subprocess.STDOUT, text=True, timeout=timeout)
    return p.returncode, p.stdout

def main():
    ap = argparse.ArgumentParser()
    ap.add_argument("seed_dir")
    ap.add_argument("--props")
    ap.add_argument("--tier", default="quick")
    ap.add_argument("--seeds", default="1")
    ap.add_argument("--skip-demo", action="store_true")
    ap.add_argument("--skip-suite", action="store_true")
    a = ap.parse_args()
    sd = os.path.abspath(a.seed_dir)
    meta = json.load(open(os.path.join(sd, "meta.json")))
    props = (a.props or meta.get("property", "")).split(",")
    wt = "/tmp/wt-eval-%d" % os.getpid()
    sh("git -C /repo worktree add -q %s HEAD" % wt)
    out = {"seed": os.path.basename(sd), "property": meta.get("property"), "at": time.strftime("%Y-%m-%d %H:%M"), "repo_head": sh("git -C /repo log --format=%h -1")[1].strip()}
    try:
        pkg = "./mux" if "package mux" in open(os.path.join(sd, "demo_test.go")).read() else "."
        racef = "-race " if meta.get("property") == "C19" else ""
        demo_dst = os.path.join(wt, "mux" if pkg == "./mux" else "", "zz_demo_test.go")
        def demo():
            shutil.copy(os.path.join(sd, "demo_test.go"), demo_dst)
            rc, o = sh("go test -vet=off -count=1 -timeout 120s %s 2>&1 | tail -15" % pkg + " ; exit ${PIPESTATUS[0]}", cwd=wt, env=dict(ENV, **{"SHELL": "/bin/bash"}))
            os.remove(demo_dst)
            return rc, o
        if not a.skip_demo:
            rc0, o0 = sh("cp %s %s && go test -vet=off -count=1 -timeout 300s %s-run 'Demo|Seed|Bug' %s; rc=$?; rm -f %s; exit $rc" % (os.path.join(sd, "demo_test.go"), demo_dst, racef, pkg, demo_dst), cwd=wt)
            out["demo_clean_tree_rc"] = rc0
        rc, o = sh("git apply %s" % os.path.join(sd, "patch.diff"), cwd=wt)
        if rc != 0:
            # later fix: commits moved the context lines: retry with less context, then with patch(1)
            rc, o2 = sh("git apply -C1 %s || patch -p1 --fuzz=3 --no-backup-if-mismatch < %s" % (os.path.join(sd, "patch.diff"), os.path.join(sd, "patch.diff")), cwd=wt)
            o += o2
            out["applied_with_reduced_context"] = rc == 0
        if rc != 0:
            out["patch_applies"] = False
            out["apply_output"] = o[-500:]
            print(json.dumps(out, indent=1))
            return
        out["patch_applies"] = True
        rc, o = sh("go build ./...", cwd=wt)
        out["builds"] = rc == 0
        if not a.skip_demo:
            rc1, o1 = sh("cp %s %s && go test -vet=off -count=1 -timeout 300s %s-run 'Demo|Seed|Bug' %s; rc=$?; rm -f %s; exit $rc" % (os.path.join(sd, "demo_test.go"), demo_dst, racef, pkg, demo_dst), cwd=wt)
            out["demo_patched_tree_rc"] = rc1
            out["demo_patched_tail"] = o1[-600:]
        if not a.skip_suite:
            # private network namespace: the suite uses fixed ports, concurrent runs would collide
            rc, o = sh("unshare -rn sh -c 'ip link set lo up && go test -vet=off -count=1 -timeout 20m ./...'", cwd=wt)
            out["suite_passes_with_patch"] = rc == 0
            if rc != 0:
                out["suite_tail"] = o[-800:]
        out["checks"] = {}
        for p in props:
            for seed in a.seeds.split(","):
                t0 = time.time()
                rc, o = sh("python3 bin/vcheck.py %s --tier %s --seed %s" % (p, a.tier, seed), cwd="/verif", env=dict(ENV, VERIF_REPO=wt), timeout=7200)
                lines = [l for l in o.splitlines() if l.startswith(("VIOLATION", "INCONCLUSIVE", "KNOWN-FINDING")) or l.startswith("  " + p + "/")]
                out["checks"]["%s/seed%s" % (p, seed)] = {"exit": rc, "s": round(time.time() - t0), "lines": [l[:300] for l in lines[:6]]}
    finally:
        sh("git -C /repo worktree remove --force %s" % wt)
    print(json.dumps(out, indent=1))
    hist = os.path.join(sd, "eval.json")
    old = json.load(open(hist)) if os.path.exists(hist) else []
    old.append(out)
    json.dump(old, open(hist, "w"), indent=1)

main()
