#!/usr/bin/env python3
"""Regenerates /verif/MANIFEST.json from the table below (kept valid at every commit)."""
import json, subprocess
CHECKS = {}
def chk(pid, engine, text, note, tech, level="exploration"):
    CHECKS[pid] = {"property_id": pid, "quick_cmd": "python3 bin/vcheck.py %s --tier quick" % pid, "thorough_cmd": "python3 bin/vcheck.py %s --tier thorough" % pid,
        "evidence_file": "/verif/evidence/%s.json" % pid, "replay_cmd_template": "python3 bin/vcheck.py %s --replay {path}" % pid, "engine": engine,
        "level_claimed": {"category": level, "text": text, "design_ref": "DESIGN.md §2 " + pid}, "level_note": note, "technique": tech}

chk("C01", "lbfuzz", "Seeded random operation programs run against real LinkBuffers with an executable FIFO byte-queue model beside each buffer; every return value, Len/MallocLen and the node-chain structure are asserted after every operation. The skip-resumed delimiter search that connection.Until uses (indexByte) is compared with the model at spread and node-boundary skips before every Until. Held on the programs executed, nothing more.",
    "Generator stays inside the documented Writer/Reader contract; stand-in buffer pool (fresh poisoned blocks) replaces mcache; non-race build; single goroutine.",
    "runtime monitoring: reference-model oracle + structural invariant hook over seeded operation sequences")
chk("C02", "lbfuzz", "Every zero-copy result (Next/Peek/Until/GetBytes vectors/Slice readers) is registered with a snapshot and re-compared after every later operation; the stand-in pool reports every Free, and a Free that overlaps a live result of an unreleased reader is flagged at that instant.",
    "Same programs and assumptions as C01; 'Slice releases its parent' is read in the weaker (sound) way; known finding D4 is matched by root cause (WriteDirect-split block).",
    "runtime monitoring: live-result registry + instrumented allocator (semantic use-after-free detector)")
chk("C03", "lbfuzz", "Pool ledger (address -> issued/freed, capacity) asserted inside every pool Malloc/Free: double free, foreign free (caller memory), interior/wrong-capacity free, linked node in an already returned block; caller-owned slices are snapshotted and re-compared after every operation.",
    "Same programs and assumptions as C01; leaks are reported but are not violations (the property bounds returns from above).",
    "runtime monitoring: allocator ledger (instrumented pool) + caller-memory canaries")
chk("C16", "lbfuzz", "Scripted io.Reader/io.Writer monitors (they know every byte they produced/accepted from a position-keyed PRF stream) under seeded random Reader/Writer call sequences on NewReader/NewWriter/NewIOReader/NewIOWriter; every returned byte, Len, error surfacing/mapping and the bytes offered to the sink across successive Flush calls are asserted. The caller re-uses its slice right after ioWriter.Write; buffer-oracle hits (C01-C03) during an adapter program count as C16 violations.",
    "Sources/sinks stay inside the io.Reader/io.Writer contracts (no negative counts, short write => error); stand-in pool; buffer-level oracle failures inside adapter cases keep their C01-C03 tag.",
    "runtime monitoring: scripted source/sink monitors + reference stream model over seeded call sequences")
chk("C04", "connmon", "Real TCP/unix connections between netpoll endpoints; the stream of each connection is PRF(seed, position), written with random Writer mixes and verified byte by byte by the receiver (handler or blocking reader) with random Reader mixes, socket-buffer sizes, reader stalls, hook-point jitter and (half of the trials) spurious EAGAIN at the sendmsg wrapper; end-of-stream only after exactly the flushed byte count. Round 5: reset (SO_LINGER 0) after complete delivery with the reader paused mid-stream - what netpoll has read stays readable.",
    "Linux epoll poller, non-race build (the lock-free buffer hand-off runs); one-way streams closed with FIN; guarantee ends at the first write error.",
    "runtime monitoring: position-keyed stream oracle on live connections + hook-point delay injection")

import sys
sys.path.insert(0, "/verif/tools")
try:
    from manifest_extra import extra
    extra(chk)
except ImportError:
    pass

ALL = ["C%02d" % i for i in range(1, 20)]
NA_REASON = {}
_missing = [p for p in ALL if p not in CHECKS and p not in NA_REASON]
if _missing:
    raise SystemExit("manifest_gen: no check and no not_applicable reason for %s (a chk() call lost its property id?)" % _missing)
na = [{"property_id": p, "reason": NA_REASON.get(p, "check not built yet at this commit (work in progress, see DESIGN.md §5)")} for p in ALL if p not in CHECKS]
hooks = subprocess.run(["git", "-C", "/repo", "log", "--format=%H %s"], stdout=subprocess.PIPE, text=True).stdout.splitlines()
hook_commits = [l.split()[0] for l in hooks if "verif hooks" in l or l.split(" ", 1)[1].startswith("verif:")]
M = {"version": 1, "setup_cmd": "python3 bin/vcheck.py --setup",
     "hooks": {"guard": "verif", "enable": "go test -tags verif plus a build overlay that injects /verif/checks/<engine>/*_test.go into the package under test (bin/vlib.py build()); the handler behind the hook points is installed by those test files",
               "baseline_off_cmd": "cd /repo && GOFLAGS=-mod=mod GOPROXY=off GOSUMDB=off GOTOOLCHAIN=local go test -json -vet=off -count=1 -timeout 25m ./...",
               "source_commits": hook_commits, "add_only": True},
     "engines": [
        {"name": "lbfuzz", "path": "checks/lbfuzz", "serves_properties": ["C01", "C02", "C03", "C16"], "kind_free_text": "in-package Go test binary: seeded program generator + reference model + instrumented buffer pool (shim/gopkg), driven by bin/eng_lbfuzz.py in child processes"},
        {"name": "race", "path": "bin/eng_race.py", "serves_properties": ["C19"], "kind_free_text": "race-detector builds (-race) of the connmon and muxmon test binaries run over checks/connmon/vr_c19_test.go workloads; report parser and classifier in bin/eng_race.py"},
        {"name": "muxmon", "path": "checks/muxmon", "serves_properties": ["C17"], "kind_free_text": "package mux test binary: ShardQueue frame oracle with its own jitter/pause handler behind the mux verif hooks; driven by bin/eng_connmon.py"},
        {"name": "connmon", "path": "checks/connmon", "serves_properties": [p for p in ALL if CHECKS.get(p, {}).get("engine") == "connmon" and p != "C17"], "kind_free_text": "in-package Go test binary on real sockets/pollers: hook trace + perturbation engine (jitter, pause P until Q), per-connection callback histories, PRF stream oracles, ledgers; driven by bin/eng_connmon.py in child processes"},
     ],
     "checks": [CHECKS[p] for p in ALL if p in CHECKS], "not_applicable": na,
     "notes": "Runtime monitoring only. Findings and fixes: known_findings.json (+ findings/ witnesses); design and triage log: DESIGN.md."}
for c in M["checks"]:
    if c["property_id"] == "C17":
        c["engine"] = "muxmon"
json.dump(M, open("/verif/MANIFEST.json", "w"), indent=1)
print("manifest:", len(M["checks"]), "checks,", len(na), "not applicable")
