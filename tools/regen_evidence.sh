#!/bin/bash
# re-run every registered quick check at seed 1 against /repo (rewrites evidence/*.json)
cd "$(dirname "$0")/.."
export GOFLAGS=-mod=mod GOPROXY=off GOSUMDB=off GOTOOLCHAIN=local
for p in C01 C02 C03 C04 C05 C06 C07 C08 C09 C10 C11 C12 C13 C14 C15 C16 C17 C18 C19; do
  t0=$(date +%s)
  out=$(VERIF_SEED=${SEED:-1} python3 bin/vcheck.py $p --tier ${TIER:-quick} 2>&1); rc=$?
  echo "$p rc=$rc $(( $(date +%s) - t0 ))s $(echo "$out" | grep -c '^VIOLATION') violations $(echo "$out" | grep -c '^KNOWN-FINDING') known"
  if [ $rc -ne 0 ]; then echo "$out" | grep -v '^    ' | tail -8 | sed 's/^/      /'; fi
done
