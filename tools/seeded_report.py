#!/usr/bin/env python3
"""Regenerates the table of seeded breaking changes at the end of DESIGN.md from
seeded/*/meta.json and seeded/*/eval.json (written by tools/try_seed.py)."""
import glob, json, os, re
rows = []
for d in sorted(glob.glob("/verif/seeded/*")):
    mp, ep = os.path.join(d, "meta.json"), os.path.join(d, "eval.json")
    if not os.path.exists(mp):
        continue
    m = json.load(open(mp))
    ev = json.load(open(ep)) if os.path.exists(ep) else []
    last = ev[-1] if ev else {}
    caught_by, missed_by = [], []
    # the verdict of the latest evaluation per check
    latest = {}
    for e in ev:
        for k, v in (e.get("checks") or {}).items():
            latest[k.split("/")[0]] = max(latest.get(k.split("/")[0], 0), 1 if v["exit"] == 1 else 0) if e is ev[-1] or k.split("/")[0] not in latest else latest[k.split("/")[0]]
    for e in ev:
        for k, v in (e.get("checks") or {}).items():
            p = k.split("/")[0]
            if v["exit"] == 1 and p not in caught_by:
                caught_by.append(p)
    first = {}
    for e in ev:
        for k, v in (e.get("checks") or {}).items():
            p = k.split("/")[0]
            first.setdefault(p, v["exit"])
    initially_missed = [p for p, x in first.items() if x != 1]
    demo = "%s/%s" % (last.get("demo_clean_tree_rc", "?"), last.get("demo_patched_tree_rc", "?"))
    for e in ev:
        if "demo_clean_tree_rc" in e:
            demo = "%s/%s" % (e.get("demo_clean_tree_rc"), e.get("demo_patched_tree_rc"))
    suite = next((e.get("suite_passes_with_patch") for e in reversed(ev) if "suite_passes_with_patch" in e), "?")
    title = (m.get("title") or m.get("what_breaks") or "")[:110].replace("|", "/")
    cb = ", ".join(caught_by) or "**none**"
    if m.get("note_invalid"):
        cb = cb + " (not a valid seed: the repository's suite fails with it - TestConnectionWrite hangs)"
    if m.get("note_neutralised"):
        cb = "n/a - neutralised by a later fix: commit (demo passes with the patch on the current tree)"
    rows.append("| %s | %s | %s | %s | %s | %s | %s |" % (os.path.basename(d), m.get("property"), title, demo, suite, cb, ", ".join(p for p in initially_missed if p in caught_by) or "-"))
hdr = ["## 7. Seeded breaking changes (independent authors) and which checks catch them", "",
       "Rounds: bug1/bug2 (first round, 39 changes), bug3/bug4 (second round, 36, authors asked for the less obvious corners; near-duplicates of first-round ideas were kept when the diff differs), then rounds of three changes per author for C04–C15 and C17–C19 with a different emphasis each (round 3: two things must coincide; round 4: non-default configuration and N-th use; round 5: failure and partial-progress paths), numbered with the next free index per property. A patch that no longer applies because a later `fix:` commit rewrote the same lines keeps its recorded evaluation (C18-bug1) or was re-applied by hand (C13-bug3, original kept as patch.orig.diff). Each row is a directory under `seeded/`. demo = exit code of the author's demonstration on the clean / the patched tree (0/1 expected); suite = the repository's suite passes with the patch (private network namespace); caught by = registered quick checks that exit 1 on the patched tree; strengthened = checks that missed the change at first and catch it after being strengthened (what was added is in the commit log and §4/§2).", "",
       "| seeded change | property | what it breaks | demo | suite | caught by | strengthened |", "|---|---|---|---|---|---|---|"]
txt = "\n".join(hdr + rows) + "\n"
p = "/verif/DESIGN.md"
s = open(p).read()
s = re.sub(r"\n## 7\. Seeded breaking changes.*\Z", "\n", s, flags=re.S)
open(p, "w").write(s.rstrip("\n") + "\n\n" + txt)
print("seeded table:", len(rows), "rows")
