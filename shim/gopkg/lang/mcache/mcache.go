// Stand-in for github.com/bytedance/gopkg/lang/mcache used ONLY by /verif checks
// (C01-C03, C16). Same API and size-class rules as the original, but:
//   - Malloc never reuses a block: every call returns fresh memory filled with 0xA5
//     (so reads of never-written pool memory are recognisable);
//   - Free never recycles: the block is reported to the observer *before* the stock
//     implementation's silent "capacity is not a power of two -> ignore" filter, then
//     poisoned with 0xDD (so later reads of freed memory are recognisable).
//
// An Observer (installed by the in-package test harness) keeps the issued/freed ledger.
package mcache

import "sync"

const maxSize = 46

// Observer receives every pool event. Calls are serialised by the shim's own mutex.
type Observer interface {
	// OnMalloc is called with the freshly issued block (len == cap == class size).
	OnMalloc(block []byte)
	// OnFree is called with the slice exactly as netpoll passed it to Free (before any
	// filtering). If it returns false the shim does not poison the memory (used when
	// the free is itself the violation and the memory belongs to somebody else).
	OnFree(buf []byte) (poison bool)
}

var (
	mu  sync.Mutex
	obs Observer
)

// SetObserver installs (or removes, with nil) the ledger.
func SetObserver(o Observer) {
	mu.Lock()
	obs = o
	mu.Unlock()
}

// PoisonFresh / PoisonFreed are the fill bytes.
const (
	PoisonFresh = 0xA5
	PoisonFreed = 0xDD
)

// calculates which pool to get from
func calcIndex(size int) int {
	if size == 0 {
		return 0
	}
	if isPowerOfTwo(size) {
		return bsr(size)
	}
	return bsr(size) + 1
}

// Malloc supports one or two integer argument (same contract as the original).
func Malloc(size int, capacity ...int) []byte {
	if len(capacity) > 1 {
		panic("too many arguments to Malloc")
	}
	c := size
	if len(capacity) > 0 && capacity[0] > size {
		c = capacity[0]
	}
	i := calcIndex(c)
	block := make([]byte, 1<<i)
	for k := range block {
		block[k] = PoisonFresh
	}
	mu.Lock()
	if obs != nil {
		obs.OnMalloc(block)
	}
	mu.Unlock()
	return block[:size]
}

// Free should be called when the buf is no longer used.
func Free(buf []byte) {
	mu.Lock()
	poison := true
	if obs != nil {
		poison = obs.OnFree(buf)
	}
	mu.Unlock()
	if !poison {
		return
	}
	full := buf[:cap(buf)]
	for k := range full {
		full[k] = PoisonFreed
	}
}
