// Copyright 2021 ByteDance Inc.
//
// Licensed under the Apache License, Version 2.0 (the "License");
// you may not use this file except in compliance with the License.
// You may obtain a copy of the License at
//
//     http://www.apache.org/licenses/LICENSE-2.0
//
// Unless required by applicable law or agreed to in writing, software
// distributed under the License is distributed on an "AS IS" BASIS,
// WITHOUT WARRANTIES OR CONDITIONS OF ANY KIND, either express or implied.
// See the License for the specific language governing permissions and
// limitations under the License.

// Package fastrand is the fastest pseudorandom number generator in Go(multiple-cores).
package fastrand

import (
	"math/bits"
	"unsafe"

	"github.com/bytedance/gopkg/internal/runtimex"
)

// Uint32 returns a pseudo-random 32-bit value as a uint32.
var Uint32 = runtimex.Fastrand

// Uint64 returns a pseudo-random 64-bit value as a uint64.
func Uint64() uint64 {
	return (uint64(runtimex.Fastrand()) << 32) | uint64(runtimex.Fastrand())
}

// Int returns a non-negative pseudo-random int.
func Int() int {
	// EQ
	u := uint(Int63())
	return int(u << 1 >> 1) // clear sign bit if int == int32
}

// Int31 returns a non-negative pseudo-random 31-bit integer as an int32.
func Int31() int32 { return int32(Uint32() & (1<<31 - 1)) }

// Int63 returns a non-negative pseudo-random 63-bit integer as an int64.
func Int63() int64 {
	// EQ
	return int64(Uint64() & (1<<63 - 1))
}

// Int63n returns, as an int64, a non-negative pseudo-random number in [0,n).
// It panics if n <= 0.
func Int63n(n int64) int64 {
	// EQ
	if n <= 0 {
		panic("invalid argument to Int63n")
	}
	if n&(n-1) == 0 { // n is power of two, can mask
		return Int63() & (n - 1)
	}
	max := int64((1 << 63) - 1 - (1<<63)%uint64(n))
	v := Int63()
	for v > max {
		v = Int63()
	}
	return v % n
}

// Int31n returns, as an int32, a non-negative pseudo-random number in [0,n).
// It panics if n <= 0.
// For implementation details, see:
// https://lemire.me/blog/2016/06/27/a-fast-alternative-to-the-modulo-reduction
func Int31n(n int32) int32 {
	// EQ
	if n <= 0 {
		panic("invalid argument to Int31n")
	}
	v := Uint32()
	prod := uint64(v) * uint64(n)
	low := uint32(prod)
	if low < uint32(n) {
		thresh := uint32(-n) % uint32(n)
		for low < thresh {
			v = Uint32()
			prod = uint64(v) * uint64(n)
			low = uint32(prod)
		}
	}
	return int32(prod >> 32)
}

// Intn returns, as an int, a non-negative pseudo-random number in [0,n).
// It panics if n <= 0.
func Intn(n int) int {
	// EQ
	if n <= 0 {
		panic("invalid argument to Intn")
	}
	if n <= 1<<31-1 {
		return int(Int31n(int32(n)))
	}
	return int(Int63n(int64(n)))
}

func Float64() float64 {
	// EQ
	return float64(Int63n(1<<53)) / (1 << 53)
}

func Float32() float32 {
	// EQ
	return float32(Int31n(1<<24)) / (1 << 24)
}

// Uint32n returns a pseudo-random number in [0,n).
//go:nosplit
func Uint32n(n uint32) uint32 {
	// This is similar to Uint32() % n, but faster.
	// See https://lemire.me/blog/2016/06/27/a-fast-alternative-to-the-modulo-reduction/
	return uint32(uint64(Uint32()) * uint64(n) >> 32)
}

// Uint64n returns a pseudo-random number in [0,n).
func Uint64n(n uint64) uint64 {
	return Uint64() % n
}

// wyrand: https://github.com/wangyi-fudan/wyhash
type wyrand uint64

func _wymix(a, b uint64) uint64 {
	hi, lo := bits.Mul64(a, b)
	return hi ^ lo
}

func (r *wyrand) Uint64() uint64 {
	*r += wyrand(0xa0761d6478bd642f)
	return _wymix(uint64(*r), uint64(*r^wyrand(0xe7037ed1a0b428db)))
}

func (r *wyrand) Uint64n(n uint64) uint64 {
	return r.Uint64() % n
}

func (r *wyrand) Uint32() uint32 {
	return uint32(Uint64())
}

func (r *wyrand) Uint32n(n int) uint32 {
	// This is similar to Uint32() % n, but faster.
	// See https://lemire.me/blog/2016/06/27/a-fast-alternative-to-the-modulo-reduction/
	return uint32(uint64(r.Uint32()) * uint64(n) >> 32)
}

// Read generates len(p) random bytes and writes them into p.
// It always returns len(p) and a nil error.
// It is safe for concurrent use.
func Read(p []byte) (int, error) {
	l := len(p)
	if l == 0 {
		return 0, nil
	}

	r := wyrand(Uint32())

	if l >= 8 {
		var i int
		uint64p := *(*[]uint64)(unsafe.Pointer(&p))
		for l >= 8 {
			uint64p[i] = r.Uint64()
			i++
			l -= 8
		}
	}

	if l > 0 {
		for l > 0 {
			p[len(p)-l] = byte(r.Uint64() >> (l * 8))
			l--
		}
	}

	return len(p), nil
}

// Shuffle pseudo-randomizes the order of elements.
// n is the number of elements. Shuffle panics if n < 0.
// swap swaps the elements with indexes i and j.
func Shuffle(n int, swap func(i, j int)) {
	if n < 0 {
		panic("invalid argument to Shuffle")
	}
	// Fisher-Yates shuffle: https://en.wikipedia.org/wiki/Fisher%E2%80%93Yates_shuffle
	// Shuffle really ought not be called with n that doesn't fit in 32 bits.
	// Not only will it take a very long time, but with 2³¹! possible permutations,
	// there's no way that any PRNG can have a big enough internal state to
	// generate even a minuscule percentage of the possible permutations.
	// Nevertheless, the right API signature accepts an int n, so handle it as best we can.
	i := n - 1
	for ; i > 1<<31-1-1; i-- {
		j := int(Int63n(int64(i + 1)))
		swap(i, j)
	}
	for ; i > 0; i-- {
		j := int(Int31n(int32(i + 1)))
		swap(i, j)
	}
}

// Perm returns, as a slice of n ints, a pseudo-random permutation of the integers
// in the half-open interval [0,n).
func Perm(n int) []int {
	m := make([]int, n)
	for i := 1; i < n; i++ {
		j := Intn(i + 1)
		m[i] = m[j]
		m[j] = i
	}
	return m
}
