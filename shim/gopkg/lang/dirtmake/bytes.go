// Copyright 2024 ByteDance Inc.
//
// Licensed under the Apache License, Version 2.0 (the "License");
// you may not use this file except in compliance with the License.
// You may obtain a copy of the License at
//
//     http://www.apache.org/licenses/LICENSE-2.0
//
// Unless required by applicable law or agreed to in writing, software
// distributed under the License is distributed on an "AS IS" BASIS,
// WITHOUT WARRANTIES OR CONDITIONS OF ANY KIND, either express or implied.
// See the License for the specific language governing permissions and
// limitations under the License.

package dirtmake

import (
	"unsafe"
)

type slice struct {
	data unsafe.Pointer
	len  int
	cap  int
}

//go:linkname mallocgc runtime.mallocgc
func mallocgc(size uintptr, typ unsafe.Pointer, needzero bool) unsafe.Pointer

// Bytes allocates a byte slice but does not clean up the memory it references.
// Throw a fatal error instead of panic if cap is greater than runtime.maxAlloc.
// NOTE: MUST set any byte element before it's read.
func Bytes(len, cap int) (b []byte) {
	if len < 0 || len > cap {
		panic("dirtmake.Bytes: len out of range")
	}
	p := mallocgc(uintptr(cap), nil, false)
	sh := (*slice)(unsafe.Pointer(&b))
	sh.data = p
	sh.len = len
	sh.cap = cap
	return
}
