// Copyright 2021 ByteDance Inc.
//
// Licensed under the Apache License, Version 2.0 (the "License");
// you may not use this file except in compliance with the License.
// You may obtain a copy of the License at
//
//     http://www.apache.org/licenses/LICENSE-2.0
//
// Unless required by applicable law or agreed to in writing, software
// distributed under the License is distributed on an "AS IS" BASIS,
// WITHOUT WARRANTIES OR CONDITIONS OF ANY KIND, either express or implied.
// See the License for the specific language governing permissions and
// limitations under the License.

package runtimex

import (
	_ "unsafe"
)

//go:noescape
//go:linkname runtime_procPin runtime.procPin
func runtime_procPin() int

//go:noescape
//go:linkname runtime_procUnpin runtime.procUnpin
func runtime_procUnpin()

// Pin pins current p, return pid.
// DO NOT USE if you don't know what this is.
func Pin() int {
	return runtime_procPin()
}

// Unpin unpins current p.
func Unpin() {
	runtime_procUnpin()
}

// Pid returns the id of current p.
func Pid() (id int) {
	id = runtime_procPin()
	runtime_procUnpin()
	return
}
