// Copyright 2021 ByteDance Inc.
//
// Licensed under the Apache License, Version 2.0 (the "License");
// you may not use this file except in compliance with the License.
// You may obtain a copy of the License at
//
//     http://www.apache.org/licenses/LICENSE-2.0
//
// Unless required by applicable law or agreed to in writing, software
// distributed under the License is distributed on an "AS IS" BASIS,
// WITHOUT WARRANTIES OR CONDITIONS OF ANY KIND, either express or implied.
// See the License for the specific language governing permissions and
// limitations under the License.

//go:build ppc64 || s390x || mips || mips64
// +build ppc64 s390x mips mips64

//
// from golang-go/src/os/endian_little.go

package runtimex

import (
	"unsafe"
)

func ReadUnaligned64(p unsafe.Pointer) uint64 {
	// Equal to runtime.readUnaligned64, but this function can be inlined
	// compared to  use runtime.readUnaligned64 via go:linkname.
	q := (*[8]byte)(p)
	return uint64(q[7]) | uint64(q[6])<<8 | uint64(q[5])<<16 | uint64(q[4])<<24 |
		uint64(q[3])<<32 | uint64(q[2])<<40 | uint64(q[1])<<48 | uint64(q[0])<<56
}

func ReadUnaligned32(p unsafe.Pointer) uint64 {
	q := (*[4]byte)(p)
	return uint64(uint32(q[3]) | uint32(q[2])<<8 | uint32(q[1])<<16 | uint32(q[0])<<24)
}

func ReadUnaligned16(p unsafe.Pointer) uint64 {
	q := (*[2]byte)(p)
	return uint64(uint32(q[1]) | uint32(q[0])<<8)
}
