module github.com/bytedance/gopkg

go 1.18
