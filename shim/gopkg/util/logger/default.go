// Copyright 2021 ByteDance Inc.
//
// Licensed under the Apache License, Version 2.0 (the "License");
// you may not use this file except in compliance with the License.
// You may obtain a copy of the License at
//
//     http://www.apache.org/licenses/LICENSE-2.0
//
// Unless required by applicable law or agreed to in writing, software
// distributed under the License is distributed on an "AS IS" BASIS,
// WITHOUT WARRANTIES OR CONDITIONS OF ANY KIND, either express or implied.
// See the License for the specific language governing permissions and
// limitations under the License.

package logger

import (
	"context"
	"fmt"
	"log"
	"os"
)

var (
	_ Logger = (*localLogger)(nil)
)

// SetDefaultLogger sets the default logger.
// This is not concurrency safe, which means it should only be called during init.
func SetDefaultLogger(l Logger) {
	if l == nil {
		panic("logger must not be nil")
	}
	defaultLogger = l
}

var defaultLogger Logger = &localLogger{
	logger: log.New(os.Stderr, "", log.LstdFlags|log.Lshortfile|log.Lmicroseconds),
}

type localLogger struct {
	logger *log.Logger
}

func (ll *localLogger) logf(lv Level, format *string, v ...interface{}) {
	if level > lv {
		return
	}
	msg := lv.toString()
	if format != nil {
		msg += fmt.Sprintf(*format, v...)
	} else {
		msg += fmt.Sprint(v...)
	}
	ll.logger.Output(3, msg)
	if lv == LevelFatal {
		os.Exit(1)
	}
}

func (ll *localLogger) Fatal(v ...interface{}) {
	ll.logf(LevelFatal, nil, v...)
}

func (ll *localLogger) Error(v ...interface{}) {
	ll.logf(LevelError, nil, v...)
}

func (ll *localLogger) Warn(v ...interface{}) {
	ll.logf(LevelWarn, nil, v...)
}

func (ll *localLogger) Notice(v ...interface{}) {
	ll.logf(LevelNotice, nil, v...)
}

func (ll *localLogger) Info(v ...interface{}) {
	ll.logf(LevelInfo, nil, v...)
}

func (ll *localLogger) Debug(v ...interface{}) {
	ll.logf(LevelDebug, nil, v...)
}

func (ll *localLogger) Trace(v ...interface{}) {
	ll.logf(LevelTrace, nil, v...)
}

func (ll *localLogger) Fatalf(format string, v ...interface{}) {
	ll.logf(LevelFatal, &format, v...)
}

func (ll *localLogger) Errorf(format string, v ...interface{}) {
	ll.logf(LevelError, &format, v...)
}

func (ll *localLogger) Warnf(format string, v ...interface{}) {
	ll.logf(LevelWarn, &format, v...)
}

func (ll *localLogger) Noticef(format string, v ...interface{}) {
	ll.logf(LevelNotice, &format, v...)
}

func (ll *localLogger) Infof(format string, v ...interface{}) {
	ll.logf(LevelInfo, &format, v...)
}

func (ll *localLogger) Debugf(format string, v ...interface{}) {
	ll.logf(LevelDebug, &format, v...)
}

func (ll *localLogger) Tracef(format string, v ...interface{}) {
	ll.logf(LevelTrace, &format, v...)
}

func (ll *localLogger) CtxFatalf(ctx context.Context, format string, v ...interface{}) {
	ll.logf(LevelFatal, &format, v...)
}

func (ll *localLogger) CtxErrorf(ctx context.Context, format string, v ...interface{}) {
	ll.logf(LevelError, &format, v...)
}

func (ll *localLogger) CtxWarnf(ctx context.Context, format string, v ...interface{}) {
	ll.logf(LevelWarn, &format, v...)
}

func (ll *localLogger) CtxNoticef(ctx context.Context, format string, v ...interface{}) {
	ll.logf(LevelNotice, &format, v...)
}

func (ll *localLogger) CtxInfof(ctx context.Context, format string, v ...interface{}) {
	ll.logf(LevelInfo, &format, v...)
}

func (ll *localLogger) CtxDebugf(ctx context.Context, format string, v ...interface{}) {
	ll.logf(LevelDebug, &format, v...)
}

func (ll *localLogger) CtxTracef(ctx context.Context, format string, v ...interface{}) {
	ll.logf(LevelTrace, &format, v...)
}
