// Copyright 2021 ByteDance Inc.
//
// Licensed under the Apache License, Version 2.0 (the "License");
// you may not use this file except in compliance with the License.
// You may obtain a copy of the License at
//
//     http://www.apache.org/licenses/LICENSE-2.0
//
// Unless required by applicable law or agreed to in writing, software
// distributed under the License is distributed on an "AS IS" BASIS,
// WITHOUT WARRANTIES OR CONDITIONS OF ANY KIND, either express or implied.
// See the License for the specific language governing permissions and
// limitations under the License.

package logger

import (
	"context"
	"fmt"
)

// Logger is a logger interface that provides logging function with levels.
type Logger interface {
	Trace(v ...interface{})
	Debug(v ...interface{})
	Info(v ...interface{})
	Notice(v ...interface{})
	Warn(v ...interface{})
	Error(v ...interface{})
	Fatal(v ...interface{})

	Tracef(format string, v ...interface{})
	Debugf(format string, v ...interface{})
	Infof(format string, v ...interface{})
	Noticef(format string, v ...interface{})
	Warnf(format string, v ...interface{})
	Errorf(format string, v ...interface{})
	Fatalf(format string, v ...interface{})

	CtxTracef(ctx context.Context, format string, v ...interface{})
	CtxDebugf(ctx context.Context, format string, v ...interface{})
	CtxInfof(ctx context.Context, format string, v ...interface{})
	CtxNoticef(ctx context.Context, format string, v ...interface{})
	CtxWarnf(ctx context.Context, format string, v ...interface{})
	CtxErrorf(ctx context.Context, format string, v ...interface{})
	CtxFatalf(ctx context.Context, format string, v ...interface{})
}

// Level defines the priority of a log message.
// When a logger is configured with a level, any log message with a lower
// log level (smaller by integer comparison) will not be output.
type Level int

// The levels of logs.
const (
	LevelTrace Level = iota
	LevelDebug
	LevelInfo
	LevelNotice
	LevelWarn
	LevelError
	LevelFatal
)

// SetLevel sets the level of logs below which logs will not be output.
// The default log level is LevelTrace.
func SetLevel(lv Level) {
	if lv < LevelTrace || lv > LevelFatal {
		panic("invalid level")
	}
	level = lv
}

// Fatal calls the default logger's Fatal method and then os.Exit(1).
func Fatal(v ...interface{}) {
	defaultLogger.Fatal(v)
}

// Error calls the default logger's Error method.
func Error(v ...interface{}) {
	if level > LevelError {
		return
	}
	defaultLogger.Error(v)
}

// Warn calls the default logger's Warn method.
func Warn(v ...interface{}) {
	if level > LevelWarn {
		return
	}
	defaultLogger.Warn(v)
}

// Notice calls the default logger's Notice method.
func Notice(v ...interface{}) {
	if level > LevelNotice {
		return
	}
	defaultLogger.Notice(v)
}

// Info calls the default logger's Info method.
func Info(v ...interface{}) {
	if level > LevelInfo {
		return
	}
	defaultLogger.Info(v)
}

// Debug calls the default logger's Debug method.
func Debug(v ...interface{}) {
	if level > LevelDebug {
		return
	}
	defaultLogger.Debug(v)
}

// Trace calls the default logger's Trace method.
func Trace(v ...interface{}) {
	if level > LevelTrace {
		return
	}
	defaultLogger.Trace(v)
}

// Fatalf calls the default logger's Fatalf method and then os.Exit(1).
func Fatalf(format string, v ...interface{}) {
	defaultLogger.Fatalf(format, v...)
}

// Errorf calls the default logger's Errorf method.
func Errorf(format string, v ...interface{}) {
	if level > LevelError {
		return
	}
	defaultLogger.Errorf(format, v...)
}

// Warnf calls the default logger's Warnf method.
func Warnf(format string, v ...interface{}) {
	if level > LevelWarn {
		return
	}
	defaultLogger.Warnf(format, v...)
}

// Noticef calls the default logger's Noticef method.
func Noticef(format string, v ...interface{}) {
	if level > LevelNotice {
		return
	}
	defaultLogger.Noticef(format, v...)
}

// Infof calls the default logger's Infof method.
func Infof(format string, v ...interface{}) {
	if level > LevelInfo {
		return
	}
	defaultLogger.Infof(format, v...)
}

// Debugf calls the default logger's Debugf method.
func Debugf(format string, v ...interface{}) {
	if level > LevelDebug {
		return
	}
	defaultLogger.Debugf(format, v...)
}

// Tracef calls the default logger's Tracef method.
func Tracef(format string, v ...interface{}) {
	if level > LevelTrace {
		return
	}
	defaultLogger.Tracef(format, v...)
}

// CtxFatalf calls the default logger's CtxFatalf method and then os.Exit(1).
func CtxFatalf(ctx context.Context, format string, v ...interface{}) {
	defaultLogger.CtxFatalf(ctx, format, v...)
}

// CtxErrorf calls the default logger's CtxErrorf method.
func CtxErrorf(ctx context.Context, format string, v ...interface{}) {
	if level > LevelError {
		return
	}
	defaultLogger.CtxErrorf(ctx, format, v...)
}

// CtxWarnf calls the default logger's CtxWarnf method.
func CtxWarnf(ctx context.Context, format string, v ...interface{}) {
	if level > LevelWarn {
		return
	}
	defaultLogger.CtxWarnf(ctx, format, v...)
}

// CtxNoticef calls the default logger's CtxNoticef method.
func CtxNoticef(ctx context.Context, format string, v ...interface{}) {
	if level > LevelNotice {
		return
	}
	defaultLogger.CtxNoticef(ctx, format, v...)
}

// CtxInfof calls the default logger's CtxInfof method.
func CtxInfof(ctx context.Context, format string, v ...interface{}) {
	if level > LevelInfo {
		return
	}
	defaultLogger.CtxInfof(ctx, format, v...)
}

// CtxDebugf calls the default logger's CtxDebugf method.
func CtxDebugf(ctx context.Context, format string, v ...interface{}) {
	if level > LevelDebug {
		return
	}
	defaultLogger.CtxDebugf(ctx, format, v...)
}

// CtxTracef calls the default logger's CtxTracef method.
func CtxTracef(ctx context.Context, format string, v ...interface{}) {
	if level > LevelTrace {
		return
	}
	defaultLogger.CtxTracef(ctx, format, v...)
}

var level Level

var strs = []string{
	"[Trace] ",
	"[Debug] ",
	"[Info] ",
	"[Notice] ",
	"[Warn] ",
	"[Error] ",
	"[Fatal] ",
}

func (lv Level) toString() string {
	if lv >= LevelTrace && lv <= LevelFatal {
		return strs[lv]
	}
	return fmt.Sprintf("[?%d] ", lv)
}
