// Copyright 2021 ByteDance Inc.
//
// Licensed under the Apache License, Version 2.0 (the "License");
// you may not use this file except in compliance with the License.
// You may obtain a copy of the License at
//
//     http://www.apache.org/licenses/LICENSE-2.0
//
// Unless required by applicable law or agreed to in writing, software
// distributed under the License is distributed on an "AS IS" BASIS,
// WITHOUT WARRANTIES OR CONDITIONS OF ANY KIND, either express or implied.
// See the License for the specific language governing permissions and
// limitations under the License.

package gopool

import (
	"fmt"
	"runtime/debug"
	"sync"
	"sync/atomic"

	"github.com/bytedance/gopkg/util/logger"
)

var workerPool sync.Pool

func init() {
	workerPool.New = newWorker
}

type worker struct {
	pool *pool
}

func newWorker() interface{} {
	return &worker{}
}

func (w *worker) run() {
	go func() {
		for {
			var t *task
			w.pool.taskLock.Lock()
			if w.pool.taskHead != nil {
				t = w.pool.taskHead
				w.pool.taskHead = w.pool.taskHead.next
				atomic.AddInt32(&w.pool.taskCount, -1)
			}
			if t == nil {
				// if there's no task to do, exit
				w.close()
				w.pool.taskLock.Unlock()
				w.Recycle()
				return
			}
			w.pool.taskLock.Unlock()
			func() {
				defer func() {
					if r := recover(); r != nil {
						if w.pool.panicHandler != nil {
							w.pool.panicHandler(t.ctx, r)
						} else {
							msg := fmt.Sprintf("GOPOOL: panic in pool: %s: %v: %s", w.pool.name, r, debug.Stack())
							logger.CtxErrorf(t.ctx, msg)
						}
					}
				}()
				t.f()
			}()
			t.Recycle()
		}
	}()
}

func (w *worker) close() {
	w.pool.decWorkerCount()
}

func (w *worker) zero() {
	w.pool = nil
}

func (w *worker) Recycle() {
	w.zero()
	workerPool.Put(w)
}
