// Copyright 2021 ByteDance Inc.
//
// Licensed under the Apache License, Version 2.0 (the "License");
// you may not use this file except in compliance with the License.
// You may obtain a copy of the License at
//
//     http://www.apache.org/licenses/LICENSE-2.0
//
// Unless required by applicable law or agreed to in writing, software
// distributed under the License is distributed on an "AS IS" BASIS,
// WITHOUT WARRANTIES OR CONDITIONS OF ANY KIND, either express or implied.
// See the License for the specific language governing permissions and
// limitations under the License.

package gopool

import (
	"context"
	"sync"
	"sync/atomic"
)

type Pool interface {
	// Name returns the corresponding pool name.
	Name() string
	// SetCap sets the goroutine capacity of the pool.
	SetCap(cap int32)
	// Go executes f.
	Go(f func())
	// CtxGo executes f and accepts the context.
	CtxGo(ctx context.Context, f func())
	// SetPanicHandler sets the panic handler.
	SetPanicHandler(f func(context.Context, interface{}))
	// WorkerCount returns the number of running workers
	WorkerCount() int32
}

var taskPool sync.Pool

func init() {
	taskPool.New = newTask
}

type task struct {
	ctx context.Context
	f   func()

	next *task
}

func (t *task) zero() {
	t.ctx = nil
	t.f = nil
	t.next = nil
}

func (t *task) Recycle() {
	t.zero()
	taskPool.Put(t)
}

func newTask() interface{} {
	return &task{}
}

type taskList struct {
	sync.Mutex
	taskHead *task
	taskTail *task
}

type pool struct {
	// The name of the pool
	name string

	// capacity of the pool, the maximum number of goroutines that are actually working
	cap int32
	// Configuration information
	config *Config
	// linked list of tasks
	taskHead  *task
	taskTail  *task
	taskLock  sync.Mutex
	taskCount int32

	// Record the number of running workers
	workerCount int32

	// This method will be called when the worker panic
	panicHandler func(context.Context, interface{})
}

// NewPool creates a new pool with the given name, cap and config.
func NewPool(name string, cap int32, config *Config) Pool {
	p := &pool{
		name:   name,
		cap:    cap,
		config: config,
	}
	return p
}

func (p *pool) Name() string {
	return p.name
}

func (p *pool) SetCap(cap int32) {
	atomic.StoreInt32(&p.cap, cap)
}

func (p *pool) Go(f func()) {
	p.CtxGo(context.Background(), f)
}

func (p *pool) CtxGo(ctx context.Context, f func()) {
	t := taskPool.Get().(*task)
	t.ctx = ctx
	t.f = f
	p.taskLock.Lock()
	if p.taskHead == nil {
		p.taskHead = t
		p.taskTail = t
	} else {
		p.taskTail.next = t
		p.taskTail = t
	}
	p.taskLock.Unlock()
	atomic.AddInt32(&p.taskCount, 1)
	// The following two conditions are met:
	// 1. the number of tasks is greater than the threshold.
	// 2. The current number of workers is less than the upper limit p.cap.
	// or there are currently no workers.
	if (atomic.LoadInt32(&p.taskCount) >= p.config.ScaleThreshold && p.WorkerCount() < atomic.LoadInt32(&p.cap)) || p.WorkerCount() == 0 {
		p.incWorkerCount()
		w := workerPool.Get().(*worker)
		w.pool = p
		w.run()
	}
}

// SetPanicHandler the func here will be called after the panic has been recovered.
func (p *pool) SetPanicHandler(f func(context.Context, interface{})) {
	p.panicHandler = f
}

func (p *pool) WorkerCount() int32 {
	return atomic.LoadInt32(&p.workerCount)
}

func (p *pool) incWorkerCount() {
	atomic.AddInt32(&p.workerCount, 1)
}

func (p *pool) decWorkerCount() {
	atomic.AddInt32(&p.workerCount, -1)
}
