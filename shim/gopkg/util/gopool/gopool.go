// Copyright 2021 ByteDance Inc.
//
// Licensed under the Apache License, Version 2.0 (the "License");
// you may not use this file except in compliance with the License.
// You may obtain a copy of the License at
//
//     http://www.apache.org/licenses/LICENSE-2.0
//
// Unless required by applicable law or agreed to in writing, software
// distributed under the License is distributed on an "AS IS" BASIS,
// WITHOUT WARRANTIES OR CONDITIONS OF ANY KIND, either express or implied.
// See the License for the specific language governing permissions and
// limitations under the License.

package gopool

import (
	"context"
	"fmt"
	"math"
	"sync"
)

// defaultPool is the global default pool.
var defaultPool Pool

var poolMap sync.Map

func init() {
	defaultPool = NewPool("gopool.DefaultPool", math.MaxInt32, NewConfig())
}

// Go is an alternative to the go keyword, which is able to recover panic.
// gopool.Go(func(arg interface{}){
//     ...
// }(nil))
func Go(f func()) {
	CtxGo(context.Background(), f)
}

// CtxGo is preferred than Go.
func CtxGo(ctx context.Context, f func()) {
	defaultPool.CtxGo(ctx, f)
}

// SetCap is not recommended to be called, this func changes the global pool's capacity which will affect other callers.
func SetCap(cap int32) {
	defaultPool.SetCap(cap)
}

// SetPanicHandler sets the panic handler for the global pool.
func SetPanicHandler(f func(context.Context, interface{})) {
	defaultPool.SetPanicHandler(f)
}

// WorkerCount returns the number of global default pool's running workers
func WorkerCount() int32 {
	return defaultPool.WorkerCount()
}

// RegisterPool registers a new pool to the global map.
// GetPool can be used to get the registered pool by name.
// returns error if the same name is registered.
func RegisterPool(p Pool) error {
	_, loaded := poolMap.LoadOrStore(p.Name(), p)
	if loaded {
		return fmt.Errorf("name: %s already registered", p.Name())
	}
	return nil
}

// GetPool gets the registered pool by name.
// Returns nil if not registered.
func GetPool(name string) Pool {
	p, ok := poolMap.Load(name)
	if !ok {
		return nil
	}
	return p.(Pool)
}
