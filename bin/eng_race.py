"""Driver for C19: the Go race detector over the connmon race workloads (server, dialer,
connection, pool reconfiguration, Slice readers) and the ShardQueue workload, with hooks
compiled in and (a) no handler, (b) the synchronisation-free jitter handler."""
import glob
import os
import re
import time

import vlib
from vlib import say

TRIALS = {"quick": 240, "thorough": 6000}
MUX_TRIALS = {"quick": 120, "thorough": 3000}
BATCH = 20

RULE = ("race workloads (echo servers with netpoll clients, concurrent closers around one reader and one writer, concurrent dials "
        "with timeouts, large writes through the poller, poller-pool phases, Slice readers released on other goroutines, Shutdown under load, "
        "ShardQueue adders) executed under `go test -race`, each in two configurations: hooks without handler, hooks with the "
        "synchronisation-free (//go:norace) jitter handler. A case counts when its workload ran to completion under the detector; "
        "distinct = workload x configuration.")
ASSUME = ["the race build swaps LinkBuffer for the mutex-wrapped SafeLinkBuffer and the epoll data pointer for an fd->operator map: the production lock-free buffer hand-off is NOT seen by the detector (C04 covers it by its stream oracle)",
          "workloads stay inside the documented concurrency contract (one reader, one writer, any number of closers; setters before use)",
          "reports vary from run to run: a clean run means no race was observed in these executions"]


def parse_reports(paths):
    reps = []
    for p in paths:
        try:
            txt = open(p, errors="replace").read()
        except OSError:
            continue
        for blk in txt.split("=================="):
            if "WARNING: DATA RACE" in blk:
                reps.append(blk.strip())
    return reps


def classify(rep):
    """netpoll: some frame in netpoll's own (non-harness) source; harness: only zz_verif files."""
    frames = re.findall(r"^\s+(/\S+\.go):\d+", rep, re.M)
    own = [f for f in frames if "/zz_verif_" not in f and "netpoll" in f or f.startswith(vlib.REPO) and "/zz_verif_" not in f]
    return "netpoll" if own else "harness"


def signature(rep):
    """Stack-pair signature with line numbers stripped: top frames of both accesses."""
    tops = []
    for part in re.split(r"\n\s*\n", rep):
        if part.lstrip().startswith(("Write at", "Read at", "Previous write at", "Previous read at", "WARNING: DATA RACE")):
            fr = re.findall(r"^\s{2}([^\s/][^\n]*?)\(\)?\n\s+/\S+\.go:\d+", part, re.M)
            fr = [f for f in fr if not f.startswith("runtime.")]
            tops.append(" <- ".join(fr[:3]))
    return " || ".join(t for t in tops if t)[:400]


def run(prop, tier, seed, replay=None):
    t0 = time.time()
    try:
        cbin, bt1 = vlib.build("connmon", race=True)
        mbin, bt2 = vlib.build("muxmon", pkg="mux", race=True)
    except vlib.BuildError as e:
        say("INCONCLUSIVE property=%s build failed" % prop)
        say(str(e))
        return vlib.EXIT_INCONCLUSIVE
    vlib.clean_replays(prop)
    sc = vlib.scratch()
    total = int(os.environ.get("VERIF_CASES", TRIALS[tier]))
    mtotal = int(os.environ.get("VERIF_CASES", MUX_TRIALS[tier]))
    jobs = []
    for i, frm in enumerate(range(0, total, BATCH)):
        jobs.append(("conn", cbin, "TestVerifConn", frm, min(BATCH, total - frm), ["off", "jitter"][i % 2], [1, 2][(i // 2) % 2]))
    for i, frm in enumerate(range(0, mtotal, BATCH)):
        jobs.append(("mux", mbin, "TestVerifMux", frm, min(BATCH, mtotal - frm), ["off", "jitter"][i % 2], 1))

    def one(j):
        kind, binary, test, frm, cnt, mode, loops = j
        tag = "race-%s-%d" % (kind, frm)
        logp = os.path.join(sc, tag + ".racelog")
        env = {"VERIF_SEED": str(seed), "VERIF_FROM": str(frm), "VERIF_COUNT": str(cnt), "VERIF_SCEN": "C19", "VERIF_RACE_MODE": mode,
               "VERIF_LOOPS": str(loops), "VERIF_NO_DIRECTED": "1", "VERIF_WATCHDOG_S": "180",
               "GORACE": "halt_on_error=0 log_path=%s" % logp}
        r = vlib.run_child(binary, test, env, 3600, tag)
        r["race_reports"] = parse_reports(glob.glob(logp + ".*"))
        r["mode"] = mode
        r["kind"] = kind
        return r

    results = vlib.parallel(one, jobs, jobs=8)
    trials, sigs, agg, hits = 0, {}, {}, {}
    reports, crashes, samples, inconcl = [], [], [], 0
    checkptr = 0
    for r in results:
        st = [x for x in r["records"] if x.get("kind") == "stats"]
        if not st:
            tail = vlib.log_tail(r["log"], 60)
            crashes.append({"tag": r["tag"], "rc": r["rc"], "progress": r["progress"], "tail": tail})
            if "checkptr" in tail:
                checkptr += 1
        for s in st:
            trials += s.get("trials", 0)
            inconcl += s.get("inconclusive", 0)
            for k, v in (s.get("signatures") or {}).items():
                sigs[k + "|" + r["mode"]] = sigs.get(k + "|" + r["mode"], 0) + v
            for k, v in (s.get("stats") or {}).items():
                agg[k] = agg.get(k, 0) + v
            for k, v in (s.get("hook_hits") or {}).items():
                hits[k] = hits.get(k, 0) + v
            samples += (s.get("samples") or [])[:1]
        for rep in r["race_reports"]:
            reports.append((classify(rep), signature(rep), rep, r["tag"]))
    netpoll_reps = [x for x in reports if x[0] == "netpoll"]
    harness_reps = [x for x in reports if x[0] == "harness"]
    distinct = {}
    for c, sig, rep, tag in netpoll_reps:
        distinct.setdefault(sig, (rep, tag))
    known = vlib.known_for(prop, None)
    viol_lines, known_lines, nviol = [], [], 0
    known_hits = {}
    for sig, (rep, tag) in distinct.items():
        kid = None
        for k in known:
            subs = k.get("match", {}).get("report_contains") or []
            if subs and all(s in rep for s in subs):
                kid = k["id"]
        if kid:
            known_hits[kid] = known_hits.get(kid, 0) + 1
            continue
        nviol += 1
        path = vlib.save_replay(prop, "seed%d-race-%d" % (seed, nviol), {"engine": "racerun", "property": prop, "oracle": "data_race", "signature": sig, "report": rep, "batch": tag, "seed": seed,
                                                                         "how_to_replay": "python3 bin/vcheck.py C19 --tier quick (race reports vary from run to run)"})
        say("  DATA RACE: %s" % sig)
        viol_lines.append("VIOLATION property=%s replay=%s" % (prop, path))
    for k in known:
        known_lines.append("KNOWN-FINDING: property=%s %s [%s; reported %d time(s) in this run]" % (prop, k["summary"], k["id"], known_hits.get(k["id"], 0)))
    cov = {"evaluations": trials, "distinct_nontrivial": len(sigs), "rule": RULE, "samples": samples[:3] or [{"note": "no trial completed"}], "exhaustive": False,
           "signatures_seen": sigs, "measured": agg, "hook_points_reached_under_race_approximate": hits,
           "race_reports_total": len(reports), "race_reports_in_netpoll_distinct": len(distinct), "race_reports_harness_only": len(harness_reps),
           "checkptr_aborts": checkptr, "child_crashes": len(crashes), "inconclusive_trials": inconcl, "known_finding_hits": known_hits,
           "build_s": round(bt1 + bt2, 1), "repo": vlib.REPO}
    vlib.write_evidence(prop, tier, seed, cov, time.time() - t0, nviol, ASSUME)
    for l in known_lines:
        say(l)
    say("%s: %d workload executions under -race, %d distinct workload x config, %d race reports (%d distinct in netpoll, %d harness-only), %d child crashes, %.0fs" % (
        prop, trials, len(sigs), len(reports), len(distinct), len(harness_reps), len(crashes), time.time() - t0))
    if viol_lines:
        for l in viol_lines:
            say(l)
        return vlib.EXIT_VIOLATION
    if harness_reps:
        say("race report with harness frames only (broken harness):\n%s" % harness_reps[0][2][:3000])
        say("INCONCLUSIVE property=%s a data race inside the harness" % prop)
        return vlib.EXIT_INCONCLUSIVE
    if crashes:
        c = crashes[0]
        if "github.com/cloudwego/netpoll." in c["tail"] and ("panic:" in c["tail"] or "fatal error:" in c["tail"]):
            path = vlib.save_replay(prop, "seed%d-crash" % seed, {"engine": "racerun", "property": prop, "oracle": "crash_under_race", "tail": c["tail"], "progress": c["progress"]})
            say(c["tail"][-2000:])
            say("VIOLATION property=%s replay=%s" % (prop, path))
            return vlib.EXIT_VIOLATION
        say("child died: %s\n%s" % (c["tag"], c["tail"][-2000:]))
        say("INCONCLUSIVE property=%s child process died" % prop)
        return vlib.EXIT_INCONCLUSIVE
    if trials < (total + mtotal) * 0.8:
        say("INCONCLUSIVE property=%s too little explored (%d trials)" % (prop, trials))
        return vlib.EXIT_INCONCLUSIVE
    return vlib.EXIT_OK


def warm():
    vlib.build("connmon", race=True)
    vlib.build("muxmon", pkg="mux", race=True)
