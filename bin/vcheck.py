#!/usr/bin/env python3
"""Entry point of every /verif check.

    python3 bin/vcheck.py <Cxx> [--tier quick|thorough] [--seed N] [--replay file]
    python3 bin/vcheck.py --setup

Exit 0: the property held on everything explored (and something non-trivial was explored);
exit 1 + "VIOLATION property=<id> replay=<path>": an oracle refuted it;
exit 3 + "INCONCLUSIVE ...": build failure / watchdog without witness / too few events."""
import argparse
import os
import sys

sys.path.insert(0, os.path.dirname(os.path.abspath(__file__)))
import vlib  # noqa: E402

ENGINE_OF = {
    "C01": "lbfuzz", "C02": "lbfuzz", "C03": "lbfuzz", "C16": "lbfuzz",
    "C04": "connmon", "C05": "connmon", "C06": "connmon", "C07": "connmon", "C08": "connmon", "C10": "connmon", "C11": "connmon", "C12": "connmon", "C13": "connmon", "C14": "connmon", "C15": "connmon", "C17": "connmon", "C18": "connmon", "C19": "race", "C09": "connmon",
}


def setup():
    """Offline setup: check that the shim module and the test overlay build, warm the build cache."""
    import importlib
    rc = 0
    seen = set()
    for prop, eng in sorted(ENGINE_OF.items()):
        if eng in seen:
            continue
        seen.add(eng)
        mod = importlib.import_module("eng_" + eng)
        if hasattr(mod, "warm"):
            try:
                mod.warm()
            except vlib.BuildError as e:
                print(e)
                rc = 1
        elif hasattr(mod, "build_all"):
            try:
                mod.build_all()
            except vlib.BuildError as e:
                print(e)
                rc = 1
        else:
            try:
                vlib.build(eng, shim=(eng == "lbfuzz"))
            except vlib.BuildError as e:
                print(e)
                rc = 1
    print("setup: done rc=%d" % rc)
    return rc


def main():
    ap = argparse.ArgumentParser()
    ap.add_argument("prop", nargs="?")
    ap.add_argument("--tier")
    ap.add_argument("--seed")
    ap.add_argument("--replay")
    ap.add_argument("--setup", action="store_true")
    a = ap.parse_args()
    if a.setup:
        sys.exit(setup())
    if not a.prop or a.prop not in ENGINE_OF:
        print("usage: vcheck.py <property id> [--tier quick|thorough] [--seed N] [--replay file]")
        sys.exit(2)
    tier, seed = vlib.tier_and_seed(a)
    import importlib
    mod = importlib.import_module("eng_" + ENGINE_OF[a.prop])
    sys.exit(mod.run(a.prop, tier, seed, replay=os.path.abspath(a.replay) if a.replay else None))


if __name__ == "__main__":
    main()
