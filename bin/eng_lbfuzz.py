"""Driver for the lbfuzz engine: C01, C02, C03 (LinkBuffer reference model, live-result
registry, pool ledger) and C16 (stream adapters)."""
import json
import os
import time

import vlib
from vlib import say

CASES = {"quick": 120000, "thorough": 6000000}
BATCH = {"quick": 10000, "thorough": 125000}
ADAPT_CASES = {"quick": 120000, "thorough": 4000000}

RULES = {
    "C01": "seeded random programs (5-300 ops over 1-6 LinkBuffers incl. Slice readers, appended donors and a buffer driven like a connection's input path; LinkBufferCap in {8,16,64,4096}; sizes drawn around node boundaries and the 1K/4K/8K/8MB thresholds). A case is non-trivial when a read or write crossed a node boundary AND it performed >=1 Flush AND >=1 read returned data; distinct = distinct hash of (LinkBufferCap, sequence of (op kind, size class)).",
    "C02": "same programs as C01; non-trivial when additionally >=1 zero-copy result (Next/Peek/Until/GetBytes vector/Slice reader) was still live while a later mutating operation ran; distinct = distinct (LinkBufferCap, op-kind x size-class sequence) hash.",
    "C03": "same programs as C01; non-trivial when additionally the pool ledger observed >=1 Free; distinct = distinct (LinkBufferCap, op-kind x size-class sequence) hash.",
}
RULES["C16"] = "seeded adapter cases: NewReader over a scripted io.Reader (chunks 0..9000 bytes, shorter than asked, (0,nil), data together with io.EOF or a custom error, error at any position) driven by random Next/Peek/Skip/ReadBinary/ReadString/ReadByte/Slice/Until/Release sequences; NewWriter over a scripted io.Writer (short writes at any boundary, zero-byte accepts, errors) driven by random Malloc/WriteBinary/WriteString/WriteByte/WriteDirect/MallocAck/Append/Flush sequences; NewIOReader/NewIOWriter over a LinkBuffer. Non-trivial: the script contains a short, empty or erroring step; distinct = hash of (mode, LinkBufferCap, script shape, op-kind x size-class sequence)."
SIGKEY = {"C01": "c01", "C02": "c02", "C03": "c03"}
NTKEY = {"C01": "nontrivial_c01", "C02": "nontrivial_c02", "C03": "nontrivial_c03"}

ASSUME = [
    "generator stays inside the documented Writer/Reader contract (clauses i-vii in DESIGN.md C01); sequences outside it are not explored",
    "the stand-in pool (shim/gopkg/lang/mcache) replaces block reuse by fresh poisoned memory; everything else of bytedance/gopkg is the verbatim v0.1.1 source",
    "normal (non-race) build: LinkBuffer = UnsafeLinkBuffer",
    "single goroutine per program (the concurrent Slice-release variant runs under C19)",
]


def _known_env(prop):
    ks = [k for k in vlib.load_known() if k.get("status") == "known" and k.get("match", {}).get("engine") in (None, "", "lbfuzz")]
    return json.dumps(ks)


def _replay(binary, test, path, tag):
    r = vlib.run_child(binary, test, {"VERIF_REPLAY": path}, 300, tag)
    viol = [x for x in r["records"] if x.get("kind") == "violation"]
    done = [x for x in r["records"] if x.get("kind") == "replay_done"]
    return viol, bool(done), r


def run(prop, tier, seed, replay=None):
    t0 = time.time()
    adapt = prop == "C16"
    test = "TestVerifAdapt" if adapt else "TestVerifLB"
    try:
        binary, bt = vlib.build("lbfuzz", shim=True)
    except vlib.BuildError as e:
        say("INCONCLUSIVE property=%s build failed" % prop)
        say(str(e))
        return vlib.EXIT_INCONCLUSIVE

    if replay:
        viol, done, r = _replay(binary, test, replay, "replay")
        for v in viol:
            say("replay: %s/%s op %s: %s" % (v.get("property"), v.get("oracle"), v.get("op_index"), v.get("msg")))
        if viol and any(v.get("property") == prop for v in viol):
            say("VIOLATION property=%s replay=%s" % (prop, replay))
            return vlib.EXIT_VIOLATION
        if not done:
            say("replay did not complete (rc=%s)\n%s" % (r["rc"], vlib.log_tail(r["log"], 30)))
            say("VIOLATION property=%s replay=%s" % (prop, replay))
            return vlib.EXIT_VIOLATION
        say("replay: no violation of %s" % prop)
        return vlib.EXIT_OK

    vlib.clean_replays(prop)
    # (i) replay the witnesses of the listed findings of this property: a still-failing
    # "known" one is announced, a "fixed" one that fails again is a violation (regression)
    known_lines, regress_lines = [], []
    nwitness = 0
    for k in vlib.load_known():
        if k.get("property") != prop or not k.get("witness"):
            continue
        wpath = os.path.join(vlib.VERIF, k["witness"])
        viol, done, r = _replay(binary, test, wpath, "finding-" + k["id"])
        nwitness += 1
        fails = any(v.get("property") == prop for v in viol) or not done
        if k.get("status") == "known" and fails:
            known_lines.append("KNOWN-FINDING: property=%s %s [%s; witness %s still fails]" % (prop, k["summary"], k["id"], k["witness"]))
        elif k.get("status") == "fixed" and fails:
            for v in viol:
                say("  regression of %s: %s/%s: %s" % (k["id"], v.get("property"), v.get("oracle"), v.get("msg")))
            regress_lines.append("VIOLATION property=%s replay=%s" % (prop, wpath))

    total = (ADAPT_CASES if adapt else CASES)[tier]
    total = int(os.environ.get("VERIF_CASES", total))
    bsz = BATCH[tier]
    sc = vlib.scratch()
    kenv = _known_env(prop)
    batches = [(i, min(bsz, total - i)) for i in range(0, total, bsz)]

    def one(b):
        frm, cnt = b
        recs_all, crashes = [], []
        guard = 0
        while cnt > 0 and guard < 50:
            guard += 1
            tag = "b%d-%d" % (frm, guard)
            env = {"VERIF_SEED": str(seed), "VERIF_FROM": str(frm), "VERIF_COUNT": str(cnt),
                   "VERIF_SIGS": os.path.join(sc, "sig-%d-%d" % (frm, guard)), "VERIF_KNOWN": kenv,
                   "GOGC": "800", "GOMAXPROCS": "2"}
            r = vlib.run_child(binary, test, env, 3600, tag)
            recs_all += r["records"]
            stats = [x for x in r["records"] if x.get("kind") == "stats"]
            if not stats:
                hg = [x for x in r["records"] if x.get("kind") == "hang"]
                if hg:
                    # the in-process watchdog ended the child at that case: go on behind it
                    nxt = int(hg[-1]["case"]) + 1
                    cnt = frm + cnt - nxt
                    frm = nxt
                    continue
                crashes.append({"rc": r["rc"], "progress": r["progress"], "log_tail": vlib.log_tail(r["log"], 40), "from": frm})
                break
            nxt = stats[-1]["next_case"]
            cnt = frm + cnt - nxt
            frm = nxt
        return recs_all, crashes

    results = vlib.parallel(one, batches)
    recs = [x for r, _ in results for x in r]
    crashes = [c for _, cs in results for c in cs]

    stats = [x for x in recs if x.get("kind") == "stats"]
    agg = {}
    for s in stats:
        for k, v in s.items():
            if isinstance(v, (int, float)) and k not in ("from", "count", "next_case", "max_simultaneously_live"):
                agg[k] = agg.get(k, 0) + v
            elif k == "max_simultaneously_live":
                agg[k] = max(agg.get(k, 0), v)
    samples = [x for s in stats for x in (s.get("samples") or [])][:3]
    known_by = {}
    for s in stats:
        for k, v in (s.get("known_by") or {}).items():
            known_by[k] = known_by.get(k, 0) + v

    # exact distinct count of non-trivial signatures
    import glob
    sigfiles = glob.glob(os.path.join(sc, "sig-*." + (SIGKEY.get(prop, "c16"))))
    distinct = 0
    if sigfiles:
        listfile = os.path.join(sc, "merge.list")
        r = vlib.run_child(binary, "TestVerifLBMerge", {"VERIF_MERGE": ",".join(sigfiles)}, 600, "merge")
        for x in r["records"]:
            if x.get("kind") == "merge":
                distinct = x["distinct"]

    viols_all = [x for x in recs if x.get("kind") in ("violation", "shrunk")]
    mine = {}
    other = 0
    for v in viols_all:
        if v.get("property") != prop and adapt and v.get("property") in ("C01", "C02", "C03"):
            # an adapter program drives nothing but NewReader/NewWriter/NewIOReader/NewIOWriter: when
            # the buffer oracles (structure, live results, pool ledger) fire there, the adapter has
            # corrupted the buffer it wraps - that is C16's "without corrupting what was delivered"
            v = dict(v, oracle="%s/%s" % (v.get("property"), v.get("oracle")), property=prop)
        if v.get("property") != prop:
            if v["kind"] == "violation":
                other += 1
            continue
        key = v["case"]
        if key not in mine or v["kind"] == "shrunk":
            mine[key] = v
    hangs = [x for x in recs if x.get("kind") == "hang"]

    violation_lines = list(regress_lines)
    nviol = len(regress_lines)
    for case, v in sorted(mine.items())[:8]:
        nviol += 1
        name = "seed%d-case%d" % (seed, case)
        obj = {"engine": "lbfuzz", "test": test, "property": prop, "oracle": v.get("oracle"), "msg": v.get("msg"),
               "op_index": v.get("op_index"), "op": v.get("op"), "seed": seed, "case": case, "case_seed": v.get("case_seed"),
               "shrunk": v["kind"] == "shrunk", "program": v.get("program"), "adapter_case": v.get("adapter_case"), "detail": v.get("detail"),
               "how_to_replay": "python3 bin/vcheck.py %s --replay <this file>" % prop}
        path = vlib.save_replay(prop, name, obj)
        # confirm in a fresh process
        cv, done, _ = _replay(binary, test, path, "confirm-%d" % case)
        obj["reproduced_in_fresh_process"] = bool([c for c in cv if c.get("property") == prop]) or not done
        json.dump(obj, open(path, "w"), indent=1)
        say("  %s/%s case %d op %s %s: %s" % (prop, v.get("oracle"), case, v.get("op_index"), v.get("op"), v.get("msg")))
        violation_lines.append("VIOLATION property=%s replay=%s" % (prop, path))
    # hangs / fatal errors inside netpoll on generated programs are C01 (or C16) violations
    if prop in ("C01", "C16"):
        confirmed = []
        for h in hangs[:3]:
            # a case without progress for VERIF_HANG_S under a loaded machine is only a suspect: run it
            # alone in a fresh process with a generous limit; only if it still does not end it is a hang
            env = {"VERIF_SEED": str(seed), "VERIF_FROM": str(h["case"]), "VERIF_COUNT": "1", "VERIF_KNOWN": kenv, "GOGC": "800", "VERIF_HANG_S": "900",
                   "VERIF_SIGS": os.path.join(sc, "sig-hang-%d" % h["case"])}
            r = vlib.run_child(binary, test, env, 1200, "hangcheck-%d" % h["case"])
            if not [x for x in r["records"] if x.get("kind") == "stats"]:
                confirmed.append(h)
        agg["hang_suspects_cleared_when_rerun_alone"] = len(hangs[:3]) - len(confirmed)
        for h in confirmed:
            nviol += 1
            name = "seed%d-case%d-hang" % (seed, h["case"])
            path = vlib.save_replay(prop, name, {"engine": "lbfuzz", "test": test, "property": prop, "oracle": "hang", "case_seed": h.get("case_seed"), "case": h["case"], "seed": seed})
            violation_lines.append("VIOLATION property=%s replay=%s" % (prop, path))
        for c in [c for c in crashes if c["rc"] != 7][:3]:
            # a child that died without a stats record: fatal error / killed; attribute through the progress file
            # (rc 7 is the in-process hang watchdog, handled above)
            nviol += 1
            name = "seed%d-crash-from%d" % (seed, c["from"])
            path = vlib.save_replay(prop, name, {"engine": "lbfuzz", "test": test, "property": prop, "oracle": "fatal_or_killed", "progress": c["progress"], "rc": c["rc"], "log_tail": c["log_tail"], "seed": seed})
            say("  child died: rc=%s at [%s]\n%s" % (c["rc"], c["progress"], c["log_tail"][-1500:]))
            violation_lines.append("VIOLATION property=%s replay=%s" % (prop, path))
    elif crashes or hangs:
        say("note: %d child crash(es)/hang(s) seen; they are attributed to C01/C16, not %s" % (len(crashes) + len(hangs), prop))

    evals = int(agg.get("cases", 0))
    nt = int(agg.get(NTKEY.get(prop, "nontrivial_c16"), 0))
    cov = {
        "evaluations": evals,
        "distinct_nontrivial": int(distinct),
        "nontrivial_cases": nt,
        "rule": RULES.get(prop, ""),
        "samples": samples,
        "exhaustive": False,
        "measured": {k: v for k, v in agg.items() if k not in ("cases",)},
        "known_finding_hits": known_by,
        "finding_witnesses_replayed": nwitness,
        "violations_of_other_properties_seen": other,
        "build_s": round(bt, 1),
        "repo": vlib.REPO,
    }
    vlib.write_evidence(prop, tier, seed, cov, time.time() - t0, nviol, ASSUME)
    for l in known_lines:
        say(l)
    say("%s: %d programs, %d non-trivial (%d distinct), %s ops, known-finding hits %s, other-property violations %d, %.0fs" % (
        prop, evals, nt, distinct, agg.get("ops"), known_by, other, time.time() - t0))
    if violation_lines:
        for l in violation_lines:
            say(l)
        return vlib.EXIT_VIOLATION
    if evals < total * 0.9 or distinct < 100:
        say("INCONCLUSIVE property=%s too little explored (%d/%d programs, %d distinct non-trivial)" % (prop, evals, total, distinct))
        return vlib.EXIT_INCONCLUSIVE
    return vlib.EXIT_OK
