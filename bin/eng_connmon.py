"""Driver for the connmon engine (real sockets, real pollers, hook trace + perturbation):
C04-C10, C12-C14 and the engines that share its trial loop (pollmon C11/C18, fdaudit C15)."""
import json
import os
import time

import vlib
from vlib import say

# per property: trials per tier, trials per child process, min distinct signatures for a pass
CONF = {
    "C04": {"quick": 96, "thorough": 3000, "batch": 6, "min_distinct": 8, "loops": [1, 2]},
    "C05": {"quick": 1600, "thorough": 60000, "batch": 100, "min_distinct": 20, "loops": [1, 2]},
    "C06": {"quick": 1600, "thorough": 60000, "batch": 100, "min_distinct": 20, "loops": [2, 1]},
    "C07": {"quick": 800, "thorough": 40000, "batch": 50, "min_distinct": 20, "loops": [1, 2], "env_alt": [{}, {"GODEBUG": "asynctimerchan=0"}]},
    "C07X": {"quick": 32, "thorough": 64, "batch": 2, "min_distinct": 1, "loops": [1]},
    "C08": {"quick": 480, "thorough": 20000, "batch": 30, "min_distinct": 20, "loops": [1, 2], "env_alt": [{}, {"GODEBUG": "asynctimerchan=0"}]},
    "C10": {"quick": 480, "thorough": 20000, "batch": 30, "min_distinct": 8, "loops": [1, 1, 2]},
    "C11": {"quick": 160, "thorough": 8000, "batch": 10, "min_distinct": 10, "loops": [1]},
    "C18": {"quick": 320, "thorough": 10000, "batch": 20, "min_distinct": 20, "loops": [1]},
    "C15": {"quick": 320, "thorough": 16000, "batch": 20, "min_distinct": 20, "loops": [1, 2], "strace": {"quick": 40, "thorough": 800}},
    "C17": {"quick": 640, "thorough": 30000, "batch": 40, "min_distinct": 20, "loops": [1, 2], "engine": "muxmon", "pkg": "mux", "test": "TestVerifMux"},
    "C14": {"quick": 480, "thorough": 20000, "batch": 30, "min_distinct": 20, "loops": [1, 2]},
    "C13": {"quick": 240, "thorough": 8000, "batch": 15, "min_distinct": 12, "loops": [2, 1, 2]},
    "C12": {"quick": 384, "thorough": 12800, "batch": 32, "min_distinct": 40, "loops": [1, 2]},
    "C09": {"quick": 1600, "thorough": 60000, "batch": 100, "min_distinct": 20, "loops": [1, 2]},
}

RULES = {
    "C04": "seeded trials over {TCP, unix} x {client->server handler, server->client blocking reader} x SO_SNDBUF/SO_RCVBUF in {default,4K,16K,64K,256K} x stream length 1B..3MB x reader stall rate x hook jitter; sender uses a random mix of Malloc/WriteBinary/WriteString/WriteByte/WriteDirect/MallocAck/Append/Write with random flush cadence, receiver a random mix of Next/Peek+Skip/ReadBinary/ReadString/ReadByte/Until/Slice/Read/Skip with random Release cadence. A trial is non-trivial when >=1 flush completed through the poller or a multi-call read happened AND >=64KB were verified byte by byte; distinct = (mode, network, sndbuf class, rcvbuf class, path direct/poller, size class, stall rate, jitter).",
}

ASSUME = {
    "C04": ["Linux/amd64 epoll poller only", "normal (non-race) build: the lock-free LinkBuffer hand-off is what runs", "completeness is asserted on one-way streams closed with FIN (no RST)", "guarantee ends at the sender's first reported write error"],
}

TEST = "TestVerifConn"
ENGINE = "connmon"


def build(prop=None):
    conf = CONF.get(prop, {}) if prop else {}
    return vlib.build(conf.get("engine", ENGINE), pkg=conf.get("pkg", "."))


def build_all():
    """setup: compile every engine served by this driver once (warms the build cache)."""
    seen = set()
    for prop, conf in CONF.items():
        key = (conf.get("engine", ENGINE), conf.get("pkg", "."))
        if key not in seen:
            seen.add(key)
            vlib.build(key[0], pkg=key[1])


def run(prop, tier, seed, replay=None):
    t0 = time.time()
    conf = CONF[prop]
    try:
        binary, bt = build(prop)
    except vlib.BuildError as e:
        say("INCONCLUSIVE property=%s build failed" % prop)
        say(str(e))
        return vlib.EXIT_INCONCLUSIVE
    if replay:
        return do_replay(prop, binary, replay)
    vlib.clean_replays(prop)
    total = int(os.environ.get("VERIF_CASES", conf[tier]))
    bsz = conf["batch"]
    loops = conf.get("loops", [1])
    batches = [(i, min(bsz, total - i)) for i in range(0, total, bsz)]
    wd = conf.get("watchdog", 90)

    def one(b):
        frm, cnt = b
        recs, crashes = [], []
        guard = 0
        bi = frm // bsz
        while cnt > 0 and guard < 20:
            guard += 1
            env = {"VERIF_SEED": str(seed), "VERIF_FROM": str(frm), "VERIF_COUNT": str(cnt), "VERIF_SCEN": prop,
                   "VERIF_LOOPS": str(loops[bi % len(loops)]), "VERIF_WATCHDOG_S": str(wd)}
            if guard > 1 and frm >= 0:
                env["VERIF_NO_DIRECTED"] = "1"
            # per-process configuration that trials cannot change: node capacity of every LinkBuffer
            # (default, doubled, tiny) and the load-balancing mode of the global poller pool
            env["VERIF_LBCAP"] = str([0, 0, 8192, 512][(bi // 3) % 4])
            env["VERIF_LB_RANDOM"] = str((bi // 5) % 2)
            env.update(conf.get("env", {}))
            alts = conf.get("env_alt")
            if alts:
                env.update(alts[(bi // 2) % len(alts)])
            r = vlib.run_child(binary, conf.get("test", TEST), env, wd * cnt + 120, "%s-b%d-%d" % (prop, frm, guard))
            recs += r["records"]
            st = [x for x in r["records"] if x.get("kind") == "stats"]
            if not st:
                crashes.append({"rc": r["rc"], "progress": r["progress"], "log_tail": vlib.log_tail(r["log"], 80), "from": frm})
                # skip the trial that killed the process and go on
                done_at = None
                if r["progress"]:
                    try:
                        done_at = int(r["progress"].split("trial=")[1].split()[0])
                    except Exception:
                        done_at = None
                if done_at is None:
                    break
                nxt = done_at + 1
            else:
                nxt = st[-1]["next_case"]
            cnt = frm + cnt - nxt
            frm = nxt
        return recs, crashes

    results = vlib.parallel(one, batches, jobs=conf.get("jobs"))
    recs = [x for r, _ in results for x in r]
    crashes = [c for _, cs in results for c in cs]
    if conf.get("strace"):
        recs += strace_pass(prop, binary, seed, conf, tier, total)
    return verdict(prop, tier, seed, recs, crashes, total, bt, t0, conf)


def strace_pass(prop, binary, seed, conf, tier, total):
    """Kernel-side observer: the same scenario under strace; every close(n) = -1 EBADF in the
    process is a close of a descriptor that was not open (a double close by somebody)."""
    import shutil
    if not shutil.which("strace"):
        return [{"kind": "stats", "stats": {"strace_unavailable": 1}}]
    n = conf["strace"][tier]
    sc = vlib.scratch()
    out = []
    per = 20
    jobs = [(total + i * per, per, i) for i in range((n + per - 1) // per)]

    def one(j):
        frm, cnt, i = j
        log = os.path.join(sc, "strace-%d.log" % i)
        env = {"VERIF_SEED": str(seed), "VERIF_FROM": str(frm), "VERIF_COUNT": str(cnt), "VERIF_SCEN": prop, "VERIF_LOOPS": "2", "VERIF_NO_DIRECTED": "1", "VERIF_WATCHDOG_S": "120"}
        r = vlib.run_child(binary, TEST, env, 900, "%s-strace-%d" % (prop, i), wrap=["strace", "-f", "--seccomp-bpf", "-e", "trace=close", "-o", log])
        rec = list(r["records"])
        closes, ebadf = 0, []
        if os.path.exists(log):
            for line in open(log, errors="replace"):
                if "close(" in line:
                    closes += 1
                    if "EBADF" in line:
                        ebadf.append(line.strip())
        rec.append({"kind": "stats", "stats": {"strace_close_calls_seen": closes, "strace_ebadf_closes": len(ebadf), "strace_runs": 1 if closes else 0}})
        if ebadf:
            rec.append({"kind": "violation", "engine": ENGINE, "scenario": prop, "case": frm, "property": prop, "oracle": "kernel_view_ebadf",
                        "msg": "strace saw %d close() call(s) fail with EBADF in the process: a descriptor number was closed that was not open (double close)" % len(ebadf),
                        "params": {"from": frm, "count": cnt, "strace_lines": ebadf[:10]}})
        return rec

    for r in vlib.parallel(one, jobs, jobs=4):
        out += r
    return out


def verdict(prop, tier, seed, recs, crashes, total, bt, t0, conf):
    stats = [x for x in recs if x.get("kind") == "stats"]
    trials = sum(s.get("trials", 0) for s in stats)
    nontriv = sum(s.get("nontrivial", 0) for s in stats)
    inconcl = sum(s.get("inconclusive", 0) for s in stats)
    sigs, agg, hits = {}, {}, {}
    for s in stats:
        for k, v in (s.get("signatures") or {}).items():
            sigs[k] = sigs.get(k, 0) + v
        for k, v in (s.get("stats") or {}).items():
            agg[k] = agg.get(k, 0) + v
        for k, v in (s.get("hook_hits") or {}).items():
            hits[k] = hits.get(k, 0) + v
    samples = [x for s in stats for x in (s.get("samples") or [])][:3]
    viols = [x for x in recs if x.get("kind") == "violation"]
    if not samples:
        samples = [{"case": v.get("case"), "params": v.get("params"), "violating": True} for v in viols[:2]] or [{"note": "no trial completed"}]
    mine = [v for v in viols if v.get("property") == prop]
    other = [v for v in viols if v.get("property") != prop]
    hpanics = [x for x in recs if x.get("kind") == "harness_panic"]
    inconcl_recs = [x for x in recs if x.get("kind") == "inconclusive"]

    known = vlib.known_for(prop, conf.get("engine", ENGINE))
    known_lines, viol_lines = [], []
    nviol = 0
    known_hits = {}
    for v in mine:
        kid = match_known(known, v)
        if kid:
            known_hits[kid] = known_hits.get(kid, 0) + 1
            continue
        nviol += 1
        if nviol > 6:
            continue
        name = "seed%d-trial%d" % (seed, v["case"])
        v["how_to_replay"] = "python3 bin/vcheck.py %s --replay <this file>  (schedule dependent: re-runs the trial up to 50 times)" % prop
        v["seed"] = seed
        path = vlib.save_replay(prop, name, v)
        say("  %s/%s trial %d: %s" % (prop, v.get("oracle"), v["case"], v.get("msg")))
        viol_lines.append("VIOLATION property=%s replay=%s" % (prop, path))
    # crashes of the child (panic inside netpoll on a runner/poller goroutine, fatal error)
    for c in crashes:
        tail = c["log_tail"]
        site = crash_in_netpoll(tail)
        if site:
            kid = match_known_crash(known, tail)
            if kid:
                known_hits[kid] = known_hits.get(kid, 0) + 1
                continue
            nviol += 1
            name = "seed%d-crash-%s" % (seed, c["progress"].replace(" ", "_")[:60])
            path = vlib.save_replay(prop, name, {"engine": ENGINE, "property": prop, "oracle": "process_crash", "progress": c["progress"], "rc": c["rc"], "log_tail": tail, "seed": seed})
            say("  child crashed inside netpoll at [%s] rc=%s\n%s" % (c["progress"], c["rc"], tail[-1800:]))
            viol_lines.append("VIOLATION property=%s replay=%s" % (prop, path))
    for k in known:
        # listed findings are announced on every run; how often this run's schedules reproduced them is stated
        known_lines.append("KNOWN-FINDING: property=%s %s [%s; reproduced %d time(s) in this run]" % (prop, k["summary"], k["id"], known_hits.get(k["id"], 0)))

    cov = {
        "evaluations": trials,
        "distinct_nontrivial": len(sigs),
        "nontrivial_trials": nontriv,
        "rule": RULES.get(prop, ""),
        "samples": samples,
        "exhaustive": False,
        "signatures_seen": dict(sorted(sigs.items(), key=lambda kv: -kv[1])[:60]),
        "measured": agg,
        "hook_points_reached": hits,
        "inconclusive_trials": inconcl,
        "inconclusive_examples": [x.get("why") for x in inconcl_recs][:5] + [i for s in stats for i in (s.get("inconclusive_list") or [])][:5],
        "child_crashes": len(crashes),
        "harness_panics": len(hpanics),
        "violations_of_other_properties_seen": len(other),
        "known_finding_hits": known_hits,
        "build_s": round(bt, 1),
        "repo": vlib.REPO,
    }
    vlib.write_evidence(prop, tier, seed, cov, time.time() - t0, nviol, ASSUME.get(prop, []))
    for l in known_lines:
        say(l)
    say("%s: %d trials, %d non-trivial, %d distinct signatures, %d inconclusive, %d crashes, %d harness panics, other-property violations %d, %.0fs" % (
        prop, trials, nontriv, len(sigs), inconcl, len(crashes), len(hpanics), len(other), time.time() - t0))
    for k in sorted(agg):
        say("    %-40s %d" % (k, agg[k]))
    if viol_lines:
        for l in viol_lines:
            say(l)
        return vlib.EXIT_VIOLATION
    if hpanics:
        for h in hpanics[:2]:
            say("harness panic: %s at %s\n%s" % (h.get("panic"), h.get("site"), (h.get("stack") or "")[:1500]))
        say("INCONCLUSIVE property=%s harness panic" % prop)
        return vlib.EXIT_INCONCLUSIVE
    uncrashed = [c for c in crashes if not crash_in_netpoll(c["log_tail"])]
    if uncrashed:
        say("child died outside netpoll:\n%s" % uncrashed[0]["log_tail"][-1500:])
        say("INCONCLUSIVE property=%s child process died (rc=%s)" % (prop, uncrashed[0]["rc"]))
        return vlib.EXIT_INCONCLUSIVE
    conclusive = trials - inconcl
    if conclusive < total * 0.8 or len(sigs) < conf.get("min_distinct", 2):
        say("INCONCLUSIVE property=%s too little explored (%d/%d conclusive trials, %d distinct non-trivial signatures)" % (prop, conclusive, total, len(sigs)))
        return vlib.EXIT_INCONCLUSIVE
    return vlib.EXIT_OK


def crash_in_netpoll(tail):
    """A goroutine dump whose panicking goroutine has netpoll (non-harness) frames."""
    if "panic:" not in tail and "fatal error:" not in tail:
        return False
    return "github.com/cloudwego/netpoll." in tail


def match_known(known, v):
    for k in known:
        m = k.get("match", {})
        if m.get("oracles") and v.get("oracle") not in m["oracles"]:
            continue
        sub = m.get("msg_contains")
        if sub and sub not in (v.get("msg") or ""):
            continue
        anyof = m.get("msg_contains_any")
        if anyof and not any(a in (v.get("msg") or "") for a in anyof):
            continue
        cfgsub = m.get("cfg_contains")
        if cfgsub and cfgsub not in str((v.get("params") or {}).get("cfg", "")):
            continue
        want = m.get("params") or {}
        p = v.get("params") or {}
        if any(p.get(a) != b for a, b in want.items()):
            continue
        return k["id"]
    return None


def match_known_crash(known, tail):
    for k in known:
        sub = k.get("match", {}).get("crash_contains")
        if sub and all(s in tail for s in sub):
            return k["id"]
    return None


def do_replay(prop, binary, path):
    v = json.load(open(path))
    case = v.get("case")
    seed = v.get("seed", 1)
    if case is None:
        say("replay file has no trial number")
        return vlib.EXIT_INCONCLUSIVE
    hits = 0
    runs = int(os.environ.get("VERIF_REPLAY_RUNS", "50"))
    for i in range(runs):
        env = {"VERIF_SEED": str(seed), "VERIF_FROM": str(case), "VERIF_COUNT": "1", "VERIF_SCEN": v.get("scenario", prop), "VERIF_LOOPS": "2"}
        r = vlib.run_child(binary, CONF[prop].get("test", TEST), env, 200, "replay-%d" % i)
        vs = [x for x in r["records"] if x.get("kind") == "violation" and x.get("property") == prop]
        if vs or not [x for x in r["records"] if x.get("kind") == "stats"]:
            hits += 1
            say("run %d: %s" % (i, vs[0].get("msg") if vs else "child died: " + vlib.log_tail(r["log"], 5)))
            break
    say("replay: reproduced in %d of %d runs" % (hits, i + 1))
    if hits:
        say("VIOLATION property=%s replay=%s" % (prop, path))
        return vlib.EXIT_VIOLATION
    return vlib.EXIT_OK
