"""Common driver machinery for the /verif checks: building test binaries from /repo's
working tree through a build overlay, running them as child processes, aggregating their
JSON-lines results, known-finding matching, evidence files, verdict printing."""
import atexit
import glob
import hashlib
import json
import os
import shutil
import signal
import subprocess
import sys
import time
from concurrent.futures import ThreadPoolExecutor

VERIF = os.path.dirname(os.path.dirname(os.path.abspath(__file__)))
REPO = os.environ.get("VERIF_REPO", "/repo")
JOBS = int(os.environ.get("VERIF_JOBS", str(os.cpu_count() or 4)))
GOENV = {"GOFLAGS": "-mod=mod", "GOPROXY": "off", "GOSUMDB": "off", "GOTOOLCHAIN": "local"}

EXIT_OK, EXIT_VIOLATION, EXIT_INCONCLUSIVE = 0, 1, 3

# Runs pointed at a scratch tree (mutation testing, VERIF_REPO=<dir>) must not overwrite the
# evidence and replay files of /repo itself: they go under work/alt/.
OUT = VERIF if os.path.realpath(REPO) == "/repo" else os.path.join(VERIF, "work", "alt")

_scratch = None


def scratch():
    """Per-process scratch directory under /verif/work, removed at exit."""
    global _scratch
    if _scratch is None:
        _scratch = os.path.join(VERIF, "work", "run-%d" % os.getpid())
        os.makedirs(_scratch, exist_ok=True)
        if not os.environ.get("VERIF_KEEP"):
            atexit.register(lambda: shutil.rmtree(_scratch, ignore_errors=True))
    return _scratch


def goenv(extra=None):
    e = dict(os.environ)
    e.update(GOENV)
    if extra:
        e.update(extra)
    return e


class BuildError(Exception):
    pass


def build(engine, pkg=".", race=False, shim=False, porcupine=False, tags="verif", files=None, name=None):
    """Compile REPO/<pkg> (current working tree) together with the in-package test files
    of /verif/checks/<engine> (+ checks/common) into a test binary; returns its path."""
    sc = scratch()
    name = name or (engine + ("-race" if race else ""))
    pkgdir = os.path.normpath(os.path.join(REPO, pkg))
    # alternate module file
    mod = open(os.path.join(REPO, "go.mod")).read()
    if porcupine:
        mod += "\nrequire github.com/anishathalye/porcupine v1.3.0\n"
    if shim:
        mod += "\nreplace github.com/bytedance/gopkg => %s\n" % os.path.join(VERIF, "shim", "gopkg")
    moddir = os.path.join(sc, "mod-" + name)
    os.makedirs(moddir, exist_ok=True)
    modfile = os.path.join(moddir, "go.mod")
    open(modfile, "w").write(mod)
    shutil.copy(os.path.join(REPO, "go.sum"), os.path.join(moddir, "go.sum"))
    # overlay: drop the repository's own tests, add ours
    repl = {}
    for f in glob.glob(os.path.join(pkgdir, "*_test.go")):
        repl[f] = ""
    pkgname = "netpoll" if pkg in (".", "") else os.path.basename(pkg)
    srcs = sorted(glob.glob(os.path.join(VERIF, "checks", "common", "*.go")))
    srcs += sorted(glob.glob(os.path.join(VERIF, "checks", engine, "*.go")))
    if files is not None:
        srcs = [s for s in srcs if os.path.basename(s) in files or "/common/" in s]
    for s in srcs:
        dst = os.path.join(pkgdir, "zz_verif_" + os.path.basename(s))
        if pkgname != "netpoll":
            # the shared helpers are written for package netpoll; re-home them
            txt = open(s).read().replace("package netpoll", "package " + pkgname, 1)
            gen = os.path.join(moddir, os.path.basename(s))
            open(gen, "w").write(txt)
            repl[dst] = gen
        else:
            repl[dst] = s
    ov = os.path.join(moddir, "overlay.json")
    json.dump({"Replace": repl}, open(ov, "w"))
    out = os.path.join(sc, name + ".test")
    cmd = ["go", "test", "-c", "-vet=off", "-overlay", ov, "-modfile", modfile, "-o", out]
    if tags:
        cmd += ["-tags", tags]
    if race:
        cmd += ["-race"]
    cmd += ["./" + pkg if pkg not in (".", "") else "."]
    t0 = time.time()
    p = subprocess.run(cmd, cwd=REPO, env=goenv(), stdout=subprocess.PIPE, stderr=subprocess.STDOUT, text=True)
    if p.returncode != 0 or not os.path.exists(out):
        raise BuildError("build of %s failed:\n%s" % (name, p.stdout[-4000:]))
    return out, time.time() - t0


_NETNS = None


def netns_wrap():
    """Every child that opens sockets runs in a private network namespace (own loopback, own
    port space): trials of concurrently running checks, the repository's suite or anything else
    on the machine cannot connect to a trial's listeners, and a trial's dial storms cannot reach
    theirs. Falls back to the shared namespace where unprivileged namespaces are unavailable."""
    global _NETNS
    if _NETNS is None:
        if os.environ.get("VERIF_NO_NETNS"):
            _NETNS = []
        else:
            try:
                ok = subprocess.run(["unshare", "-rn", "sh", "-c", "ip link set lo up"], stdout=subprocess.DEVNULL, stderr=subprocess.DEVNULL, timeout=20).returncode == 0
            except Exception:
                ok = False
            _NETNS = ["unshare", "-rn", "sh", "-c", 'ip link set lo up && exec "$@"', "sh"] if ok else []
    return _NETNS


def run_child(binary, test, env, timeout_s, tag, extra_args=None, cwd=None, wrap=None, netns=True):
    """Run one child; returns dict(rc, records, log, progress)."""
    sc = scratch()
    out = os.path.join(sc, tag + ".jsonl")
    log = os.path.join(sc, tag + ".log")
    prog = os.path.join(sc, tag + ".progress")
    for f in (out, prog):
        if os.path.exists(f):
            os.remove(f)
    e = goenv(env)
    e["VERIF_OUT"] = out
    tmpd = os.path.join(sc, "tmp")
    os.makedirs(tmpd, exist_ok=True)
    e["TMPDIR"] = tmpd
    e["VERIF_PROGRESS"] = prog
    cmd = ["timeout", "-s", "QUIT", "-k", "20", str(int(timeout_s))] + (netns_wrap() if netns else []) + (wrap or []) + [binary, "-test.run", "^%s$" % test, "-test.count=1", "-test.timeout=0"]
    if extra_args:
        cmd += extra_args
    with open(log, "w") as lf:
        p = subprocess.run(cmd, env=e, stdout=lf, stderr=subprocess.STDOUT, cwd=cwd or sc)
    recs = []
    if os.path.exists(out):
        for line in open(out, errors="replace"):
            line = line.strip()
            if not line:
                continue
            try:
                recs.append(json.loads(line))
            except Exception:
                recs.append({"kind": "garbled", "line": line[:200]})
    progress = ""
    if os.path.exists(prog):
        progress = open(prog, errors="replace").read().strip()
    return {"rc": p.returncode, "records": recs, "log": log, "progress": progress, "tag": tag}


def parallel(fn, items, jobs=None):
    with ThreadPoolExecutor(max_workers=jobs or JOBS) as ex:
        return list(ex.map(fn, items))


def log_tail(path, n=60):
    try:
        lines = open(path, errors="replace").read().splitlines()
        return "\n".join(lines[-n:])
    except Exception:
        return ""


# ----------------------------------------------------------------- known findings

def load_known():
    path = os.path.join(VERIF, "known_findings.json")
    if not os.path.exists(path):
        return []
    return json.load(open(path)).get("findings", [])


def known_for(prop, engine=None, status="known"):
    out = []
    for k in load_known():
        if k.get("property") != prop or k.get("status") != status:
            continue
        if engine and k.get("match", {}).get("engine") not in (None, "", engine):
            continue
        out.append(k)
    return out


# ----------------------------------------------------------------- evidence / verdict

def write_evidence(prop, tier, seed, coverage, wall_s, violations, assumptions=None, level="exploration", extra=None):
    os.makedirs(os.path.join(OUT, "evidence"), exist_ok=True)
    ev = {
        "property_id": prop,
        "tier": tier,
        "seed": int(seed),
        "level": level,
        "coverage": coverage,
        "assumptions": assumptions or [],
        "wall_s": round(wall_s, 2),
        "violations": int(violations),
    }
    if extra:
        ev.update(extra)
    import re
    evdir = os.path.join(OUT, "evidence") if re.fullmatch(r"C\d\d", prop) else os.path.join(OUT, "work", "evidence-unregistered")
    os.makedirs(evdir, exist_ok=True)  # helper scenarios (C07X) are not properties: no evidence file under evidence/
    path = os.path.join(evdir, prop + ".json")
    tmp = path + ".tmp%d" % os.getpid()
    json.dump(ev, open(tmp, "w"), indent=1, default=str)
    os.replace(tmp, path)
    return path


def clean_replays(prop):
    """Witnesses of earlier runs are removed at the start of a run (known-finding witnesses
    live under /verif/findings, not here)."""
    d = os.path.join(OUT, "replays", prop)
    if os.path.isdir(d) and os.listdir(d):
        # keep the previous run's witnesses (schedule-dependent ones may not come back): move them aside
        old = os.path.join(VERIF, "work", "old-replays", prop, time.strftime("%m%d-%H%M%S"))
        os.makedirs(old, exist_ok=True)
        for f in os.listdir(d):
            try:
                os.replace(os.path.join(d, f), os.path.join(old, f))
            except OSError:
                pass


def save_replay(prop, name, obj):
    d = os.path.join(OUT, "replays", prop)
    os.makedirs(d, exist_ok=True)
    path = os.path.join(d, name + ".json")
    json.dump(obj, open(path, "w"), indent=1, default=str)
    return path


def say(*a):
    print(*a, flush=True)


def tier_and_seed(args):
    tier = args.tier or os.environ.get("VERIF_TIER") or "quick"
    if tier not in ("quick", "thorough"):
        tier = "quick"
    try:
        seed = int(args.seed if args.seed is not None else os.environ.get("VERIF_SEED", "1"))
    except ValueError:
        seed = 1
    return tier, seed
